import UF.Spec.Html
/-
  C20 helper lemmas: Latin-1 round trip, marker tests on the transcoded text vs on the bytes,
  the rune-counting search vs the byte-window reference, the splice.
-/
namespace UF.Html

/-- A statement about all 256 byte values, checked value by value. -/
theorem forall_uint8 (P : UInt8 → Prop) (h : ∀ n : Fin 256, P (UInt8.ofNat n.val)) : ∀ c, P c := by
  intro c
  have := h ⟨c.toNat, c.toNat_lt⟩
  simpa using this

/-- The two bytes `encByte` produces for a high byte: a lead byte C2/C3, a continuation byte, and
    they decode back to the byte. -/
theorem enc_hi : ∀ c : UInt8, ¬ c < 0x80 →
    ¬ ((0xC0 : UInt8) ||| (c >>> 6)) < 0x80 ∧
    ((((0xC0 : UInt8) ||| (c >>> 6)) == 0xC2 || ((0xC0 : UInt8) ||| (c >>> 6)) == 0xC3) = true) ∧
    (0x80 : UInt8) ≤ ((0x80 : UInt8) ||| (c &&& 0x3F)) ∧ ((0x80 : UInt8) ||| (c &&& 0x3F)) ≤ 0xBF ∧
    (((((0xC0 : UInt8) ||| (c >>> 6)) &&& 0x03) <<< 6) ||| (((0x80 : UInt8) ||| (c &&& 0x3F)) &&& 0x3F)) = c := by
  apply forall_uint8
  set_option maxRecDepth 100000 in decide

theorem latin1Decode_cons (c : UInt8) (r : Bytes) : latin1Decode (c :: r) = encByte c ++ latin1Decode r := by
  simp [latin1Decode]

theorem latin1Decode_append (a b : Bytes) : latin1Decode (a ++ b) = latin1Decode a ++ latin1Decode b := by
  simp [latin1Decode]

/-- Encoding undoes the transcoding of one byte, whatever follows. -/
theorem latin1Encode_encByte (c : UInt8) (rest : Bytes) :
    latin1Encode (encByte c ++ rest) = (latin1Encode rest).map (c :: ·) := by
  unfold encByte
  by_cases h : c < 0x80
  · rw [if_pos h, List.cons_append, List.nil_append, latin1Encode.eq_def]; simp [h]
  · obtain ⟨h1, h2, h3, h4, h5⟩ := enc_hi c h
    simp only [h, if_false, List.cons_append, List.nil_append]
    rw [latin1Encode.eq_def]
    simp only [h1, if_false]
    have hcond : ((((0xC0 : UInt8) ||| (c >>> 6)) == 0xC2 || ((0xC0 : UInt8) ||| (c >>> 6)) == 0xC3) &&
        decide ((0x80 : UInt8) ≤ ((0x80 : UInt8) ||| (c &&& 0x3F))) && decide (((0x80 : UInt8) ||| (c &&& 0x3F)) ≤ 0xBF)) = true := by
      simp [h2, h3, h4]
    simp only [hcond, if_true, h5]

theorem latin1Encode_decode_append (a rest : Bytes) :
    latin1Encode (latin1Decode a ++ rest) = (latin1Encode rest).map (a ++ ·) := by
  induction a with
  | nil => simp [latin1Decode]
  | cons c r ih =>
    rw [latin1Decode_cons, List.append_assoc, latin1Encode_encByte, ih]
    cases latin1Encode rest <;> simp

theorem latin1Encode_ascii_append (t rest : Bytes) (h : Bytes.isAscii t = true) :
    latin1Encode (t ++ rest) = (latin1Encode rest).map (t ++ ·) := by
  induction t with
  | nil => simp
  | cons c r ih =>
    simp only [Bytes.isAscii, List.all_cons, Bool.and_eq_true, decide_eq_true_eq] at h
    have hr : Bytes.isAscii r = true := by simpa [Bytes.isAscii] using h.2
    have hc : c < 0x80 := h.1
    rw [List.cons_append, latin1Encode.eq_def]
    simp only [hc, if_true, ih hr]
    cases latin1Encode rest <;> simp

/-! ### Markers -/

/-- Prefix match with `eqFoldByte` (what `isMatchFound` computes). -/
def pmatch : Bytes → Bytes → Bool
  | _, [] => true
  | [], _ :: _ => false
  | a :: s, b :: m => eqFoldByte a b && pmatch s m

theorem isMatchFound_eq_pmatch (x m : Bytes) : isMatchFound x m = pmatch x m := by
  induction m generalizing x with
  | nil => simp [isMatchFound, pmatch, equalFold]
  | cons b m ih =>
    cases x with
    | nil => simp [isMatchFound, pmatch]
    | cons a x =>
      have := ih x
      unfold isMatchFound at this ⊢
      simp only [List.length_cons, List.take_succ_cons, pmatch, equalFold] at this ⊢
      rw [← this]
      cases eqFoldByte a b <;> simp

theorem eqFoldByte_hi {a b : UInt8} (h : ¬ a < 0x80) : eqFoldByte a b = false := by
  simp [eqFoldByte, h]

/-- On the transcoded text a marker is found exactly where the bytes start with it. -/
theorem pmatch_decode (s m : Bytes) (hm : Bytes.isAscii m = true) :
    pmatch (latin1Decode s) m = startsWithFold s m := by
  induction m generalizing s with
  | nil => simp [pmatch, startsWithFold]
  | cons b m ih =>
    simp only [Bytes.isAscii, List.all_cons, Bool.and_eq_true, decide_eq_true_eq] at hm
    have hm' : Bytes.isAscii m = true := by simpa [Bytes.isAscii] using hm.2
    have hb : b < 0x80 := hm.1
    cases s with
    | nil => simp [latin1Decode, pmatch, startsWithFold]
    | cons a s =>
      rw [latin1Decode_cons]
      unfold encByte
      by_cases ha : a < 0x80
      · simp only [ha, if_true, List.cons_append, List.nil_append, pmatch, startsWithFold, ih s hm', eqFoldByte, hb]
        cases (Bytes.lowerByte a == Bytes.lowerByte b) <;> simp
      · obtain ⟨h1, _⟩ := enc_hi a ha
        simp only [ha, if_false, List.cons_append, List.nil_append, pmatch, startsWithFold, eqFoldByte_hi h1]
        simp

theorem markers_ascii : ∀ m ∈ markers, Bytes.isAscii m = true := by decide

theorem any_congr_of_mem {α : Type} {f g : α → Bool} {l : List α} (h : ∀ x ∈ l, f x = g x) : l.any f = l.any g := by
  induction l with
  | nil => rfl
  | cons a t ih =>
    simp only [List.any_cons]
    rw [h a (by simp), ih (fun x hx => h x (by simp [hx]))]

theorem anyMarker_decode (s : Bytes) : anyMarker (latin1Decode s) = markerAt s := by
  unfold anyMarker markerAt
  apply any_congr_of_mem
  intro m hm
  rw [isMatchFound_eq_pmatch, pmatch_decode _ _ (markers_ascii m hm)]

end UF.Html

import UF.Proofs.StorageMain
import UF.Proofs.TrimSpaceIdem
/-
  A small concrete parser and storage used by the non-vacuity `example`s of Props/C11:
  the hypotheses of the C11 theorems (`TrimsFirst`, `ListsOK`, a scanned entry) are satisfiable.
-/
namespace UF.Storage

/-- A toy stand-in for `rules.NewRule`: trims, drops blanks and `!` comments, reads `##…` as a
    cosmetic rule, rejects `@@…`, takes everything else for a network rule. -/
def demoParser : Parser := fun l _ =>
  let t := trimSpace l
  if t.isEmpty then .nothing
  else if Bytes.hasPrefix t (lit "!") then .nothing
  else if Bytes.hasPrefix t (lit "##") then .rule .cosmetic t
  else if Bytes.hasPrefix t (lit "@@") then .error
  else .rule .network t

theorem demoParser_trimsFirst : TrimsFirst demoParser := by
  refine ⟨?_, ?_, ?_⟩
  · intro l id
    unfold demoParser
    simp only [trimSpace_idem]
  · intro l id h
    unfold demoParser
    simp [h]
  · intro l id k t h
    unfold demoParser at h
    simp only at h
    split at h
    · cases h
    · split at h
      · cases h
      · split at h
        · cases h; rfl
        · split at h
          · cases h
          · cases h; rfl

/-- Two lists with extreme ids: CRLF, a padded rule, a comment, no final newline; the second one is
    file-backed and ignores cosmetic rules. -/
def demoLists : List RList :=
  [⟨-2147483648, false, lit " ||a^ \r\n! c\n##b", false⟩, ⟨2147483647, true, lit "##x\n@@\n||y^\n", true⟩]

theorem scanLinesFrom_cons (pos : Nat) (c : UInt8) (r : Bytes) :
    scanLinesFrom pos (c :: r) =
      (pos, takeLine (c :: r)) :: scanLinesFrom (pos + (takeLine (c :: r)).length) (dropLine (c :: r)) := by
  rw [scanLinesFrom]

theorem scanLinesFrom_nil (pos : Nat) : scanLinesFrom pos [] = [] := by
  rw [scanLinesFrom]

theorem demo_scan1 : scanList demoParser (-2147483648) false (lit " ||a^ \r\n! c\n##b") =
    [(⟨.network, lit "||a^", -2147483648⟩, 0), (⟨.cosmetic, lit "##b", -2147483648⟩, 12)] := by
  have h : scanLines (lit " ||a^ \r\n! c\n##b") = [(0, lit " ||a^ \r\n"), (8, lit "! c\n"), (12, lit "##b")] := by
    simp [scanLines, lit, scanLinesFrom_cons, scanLinesFrom_nil, takeLine, dropLine]
  unfold scanList
  rw [h]
  have p1 : demoParser (lit " ||a^ \r\n") (-2147483648) = .rule .network (lit "||a^") := by decide +kernel
  have p2 : demoParser (lit "! c\n") (-2147483648) = .nothing := by decide +kernel
  have p3 : demoParser (lit "##b") (-2147483648) = .rule .cosmetic (lit "##b") := by decide +kernel
  simp [List.filterMap, p1, p2, p3]

theorem demo_scan2 : scanList demoParser 2147483647 true (lit "##x\n@@\n||y^\n") =
    [(⟨.network, lit "||y^", 2147483647⟩, 7)] := by
  have h : scanLines (lit "##x\n@@\n||y^\n") = [(0, lit "##x\n"), (4, lit "@@\n"), (7, lit "||y^\n")] := by
    simp [scanLines, lit, scanLinesFrom_cons, scanLinesFrom_nil, takeLine, dropLine]
  unfold scanList
  rw [h]
  have p1 : demoParser (lit "##x\n") 2147483647 = .rule .cosmetic (lit "##x") := by decide +kernel
  have p2 : demoParser (lit "@@\n") 2147483647 = .error := by decide +kernel
  have p3 : demoParser (lit "||y^\n") 2147483647 = .rule .network (lit "||y^") := by decide +kernel
  simp [List.filterMap, p1, p2, p3]

/-- The scan of the demo storage: three rules; the storage indices are
    `min int32 <<32 | 0`, `… | 12` and `max int32 << 32 | 7`. -/
theorem demo_storageScan : storageScan demoParser demoLists =
    [(⟨.network, lit "||a^", -2147483648⟩, pack (BitVec.ofInt 32 (-2147483648)) (BitVec.ofNat 32 0)),
     (⟨.cosmetic, lit "##b", -2147483648⟩, pack (BitVec.ofInt 32 (-2147483648)) (BitVec.ofNat 32 12)),
     (⟨.network, lit "||y^", 2147483647⟩, pack (BitVec.ofInt 32 2147483647) (BitVec.ofNat 32 7))] := by
  simp [storageScan, demoLists, demo_scan1, demo_scan2]

theorem demo_listsOK : ListsOK demoLists := ⟨by decide, by decide, by decide⟩

end UF.Storage

import UF.Proofs.StorageLines
/-
  Retrieval from one list: `StringRuleList.RetrieveRule` never panics and reads
  `trimSpace (untilNL (content.drop idx))`; `readLine` over ANY chunking reads the same bytes,
  hence `FileRuleList.RetrieveRule` agrees with it at every index.
-/
namespace UF.Storage

theorem indexByte_go_shift (s : Bytes) (c : UInt8) (i : Nat) :
    Bytes.indexByte.go c s i = (Bytes.indexByte.go c s 0).map (· + i) := by
  induction s generalizing i with
  | nil => simp [Bytes.indexByte.go]
  | cons a t ih =>
    by_cases h : a = c
    · simp [Bytes.indexByte.go, h]
    · simp only [Bytes.indexByte.go, beq_iff_eq, h, if_false]
      rw [ih (i + 1), ih (0 + 1)]
      cases Bytes.indexByte.go c t 0 with
      | none => rfl
      | some k => simp; omega

/-- `strings.IndexByte(s, '\n')` against `untilNL`. -/
theorem indexByte_nl (s : Bytes) :
    match Bytes.indexByte s 10 with
    | none => untilNL s = s
    | some k => k ≤ s.length ∧ untilNL s = s.take k := by
  induction s with
  | nil => simp [Bytes.indexByte, Bytes.indexByte.go, untilNL]
  | cons a t ih =>
    by_cases h : a = 10
    · simp [Bytes.indexByte, Bytes.indexByte.go, untilNL, h]
    · unfold Bytes.indexByte at ih ⊢
      simp only [Bytes.indexByte.go, beq_iff_eq, h, if_false]
      rw [indexByte_go_shift]
      cases hk : Bytes.indexByte.go 10 t 0 with
      | none => rw [hk] at ih; simp [untilNL, h] at ih ⊢; exact ih
      | some k => rw [hk] at ih; simp [untilNL, h] at ih ⊢; exact ih

/-- `StringRuleList.RetrieveRule` inside the bounds: no panic, and the line is what precedes the
    next newline. -/
theorem retrieveString_eq (parse : Parser) (id : Int) (content : Bytes) (i : Nat) (h : i < content.length) :
    retrieveString parse id content (i : Int) =
      (let line := trimSpace (untilNL (content.drop i))
       if line.isEmpty then .err else ofParse id (parse line id)) := by
  unfold retrieveString
  have h1 : ¬ ((i : Int) < 0 ∨ (i : Int) ≥ (content.length : Int)) := by omega
  simp only [Bool.or_eq_true, decide_eq_true_eq, h1, if_false, Int.toNat_natCast]
  have hs : Bytes.slice? content i content.length = some (content.drop i) := by
    unfold Bytes.slice?
    have : i ≤ content.length ∧ content.length ≤ content.length := ⟨by omega, Nat.le_refl _⟩
    simp [this]
  rw [hs]
  simp only
  have hnl := indexByte_nl (content.drop i)
  cases hk : Bytes.indexByte (content.drop i) 10 with
  | none =>
    rw [hk] at hnl
    simp only at hnl ⊢
    rw [hs]
    simp only [hnl]
  | some k =>
    rw [hk] at hnl
    simp only at hnl ⊢
    obtain ⟨hk1, hk2⟩ := hnl
    have hs2 : Bytes.slice? content i (k + i) = some ((content.drop i).take k) := by
      unfold Bytes.slice?
      simp only [List.length_drop] at hk1
      have : i ≤ k + i ∧ k + i ≤ content.length := ⟨by omega, by omega⟩
      simp only [this, and_self, if_true, Option.some.injEq]
      rw [List.take_drop]
      congr 2
      omega
    rw [hs2]
    simp only [hk2]

theorem retrieveString_oob (parse : Parser) (id : Int) (content : Bytes) (idx : Int)
    (h : idx < 0 ∨ idx ≥ content.length) : retrieveString parse id content idx = .err := by
  unfold retrieveString
  simp [h]

/-! ### `readLine` over any chunking -/

theorem untilNL_append_of_not_mem {a : Bytes} (h : 10 ∉ a) (b : Bytes) : untilNL (a ++ b) = a ++ untilNL b := by
  induction a with
  | nil => rfl
  | cons c r ih =>
    have hc : ¬ c = 10 := by intro e; apply h; simp [e]
    have hr : 10 ∉ r := by intro e; apply h; simp [e]
    simp [untilNL, hc, ih hr]

theorem untilNL_append_of_mem {a : Bytes} (h : 10 ∈ a) (b : Bytes) : untilNL (a ++ b) = untilNL a := by
  induction a with
  | nil => simp at h
  | cons c r ih =>
    by_cases hc : c = 10
    · simp [untilNL, hc]
    · have hr : 10 ∈ r := by
        simp at h
        rcases h with h | h
        · exact absurd h.symm hc
        · exact h
      simp [untilNL, hc, ih hr]

theorem indexByte_none_not_mem {s : Bytes} (h : Bytes.indexByte s 10 = none) : 10 ∉ s := by
  induction s with
  | nil => simp
  | cons a t ih =>
    by_cases ha : a = 10
    · simp [Bytes.indexByte, Bytes.indexByte.go, ha] at h
    · unfold Bytes.indexByte at h ih
      simp only [Bytes.indexByte.go, beq_iff_eq, ha, if_false] at h
      rw [indexByte_go_shift] at h
      have : Bytes.indexByte.go 10 t 0 = none := by
        cases hk : Bytes.indexByte.go 10 t 0 with
        | none => rfl
        | some k => rw [hk] at h; simp at h
      have := ih this
      simp
      exact ⟨fun e => ha e.symm, this⟩

theorem indexByte_some_mem {s : Bytes} {k : Nat} (h : Bytes.indexByte s 10 = some k) : 10 ∈ s := by
  induction s generalizing k with
  | nil => simp [Bytes.indexByte, Bytes.indexByte.go] at h
  | cons a t ih =>
    by_cases ha : a = 10
    · simp [ha]
    · unfold Bytes.indexByte at h ih
      simp only [Bytes.indexByte.go, beq_iff_eq, ha, if_false] at h
      rw [indexByte_go_shift] at h
      cases hk : Bytes.indexByte.go 10 t 0 with
      | none => rw [hk] at h; simp at h
      | some k' => simp [ih hk]

theorem readSize_le (b : Nat) (ch : Nat → Nat) (k left : Nat) : readSize b ch k left ≤ left := by
  unfold readSize; omega

theorem readSize_pos (b : Nat) (ch : Nat → Nat) (k left : Nat) (h : 0 < left) : 0 < readSize b ch k left := by
  unfold readSize; omega

/-- The loop invariant of `readLine`: whatever the block sizes, the accumulated line plus the line
    prefix of what is left does not change. -/
theorem readLineGo_eq (b : Nat) (ch : Nat → Nat) (fuel k : Nat) (rest line : Bytes) (hf : rest.length < fuel) :
    readLineGo b ch fuel k rest line = line ++ untilNL rest := by
  induction fuel generalizing k rest line with
  | zero => omega
  | succ fuel ih =>
    unfold readLineGo
    simp only
    by_cases hn : readSize b ch k rest.length > 0
    · simp only [hn, if_true]
      have hle := readSize_le b ch k rest.length
      have hsplit : rest = rest.take (readSize b ch k rest.length) ++ rest.drop (readSize b ch k rest.length) :=
        (List.take_append_drop _ _).symm
      cases hk : Bytes.indexByte (List.take (readSize b ch k rest.length) rest) 10 with
      | none =>
        simp only
        rw [ih]
        · have hnm := indexByte_none_not_mem hk
          conv => rhs; rw [hsplit, untilNL_append_of_not_mem hnm]
          simp
        · simp only [List.length_drop]; omega
      | some idx =>
        simp only
        have hm := indexByte_some_mem hk
        have hnl := indexByte_nl (List.take (readSize b ch k rest.length) rest)
        rw [hk] at hnl
        simp only at hnl
        conv => rhs; rw [hsplit, untilNL_append_of_mem hm, hnl.2]
    · simp only [hn, if_false]
      have : rest.length = 0 := by
        by_cases h0 : 0 < rest.length
        · exact absurd (readSize_pos b ch k rest.length h0) hn
        · omega
      have : rest = [] := List.length_eq_zero_iff.mp this
      simp [this, untilNL]

/-- `readLine` returns the bytes before the first newline -- for every buffer size and every way
    the operating system cuts the reads. -/
theorem readLine_eq (b : Nat) (ch : Nat → Nat) (rest : Bytes) : readLine b ch rest = untilNL rest := by
  unfold readLine
  rw [readLineGo_eq _ _ _ _ _ _ (by omega)]
  simp

/-- `FileRuleList.RetrieveRule` = `StringRuleList.RetrieveRule` at EVERY index (negative, inside,
    beyond the end), for every chunking. -/
theorem retrieveFile_eq_retrieveString (b : Nat) (ch : Nat → Nat) (parse : Parser) (id : Int) (content : Bytes)
    (idx : Int) : retrieveFile b ch parse id content idx = retrieveString parse id content idx := by
  by_cases hneg : idx < 0
  · rw [retrieveString_oob _ _ _ _ (Or.inl hneg)]
    simp [retrieveFile, hneg]
  · obtain ⟨i, rfl⟩ : ∃ i : Nat, idx = (i : Int) := ⟨idx.toNat, by omega⟩
    unfold retrieveFile
    simp only [hneg, if_false, Int.toNat_natCast, readLine_eq]
    by_cases hi : i < content.length
    · rw [retrieveString_eq _ _ _ _ hi]
    · rw [retrieveString_oob _ _ _ _ (Or.inr (by omega))]
      have : content.drop i = [] := List.drop_eq_nil_of_le (by omega)
      simp [this, untilNL, trimSpace, dropAsciiSp]

end UF.Storage

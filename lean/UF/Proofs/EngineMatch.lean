import UF.Proofs.Engine
import UF.Spec.Engine
/-
  The two facts about `NetRule.matches` that completeness of the lookup needs (H1, H2),
  and independence of `matches` from the list id.
-/
namespace UF.B
open UF UF.Bytes

/-- (H1) `Match` starts with the shortcut test. -/
theorem matches_shortcut (ext : Ext) (r : NetRule) (q : Request) (h : r.matches ext q = true) :
    Bytes.hasSub q.urlLower r.shortcut = true := by
  simp only [NetRule.matches, Bool.and_eq_true] at h
  exact h.1.1.1.1.1.1.1.1.1

theorem matches_sourceDomain (ext : Ext) (r : NetRule) (q : Request) (h : r.matches ext q = true) :
    matchSourceDomain ext r q.sourceHostname = true := by
  simp only [NetRule.matches, Bool.and_eq_true] at h
  exact h.1.1.1.1.2

/-- A non-wildcard entry accepts `host` only if `host` is the entry or ends in `"." ++ entry`. -/
theorem domainEntry_plain (ext : Ext) (host d : Bytes) (hw : Bytes.hasSuffix d (lit ".*") = false)
    (h : domainEntryMatches ext host d = true) : host = d ∨ ∃ x, host = x ++ ch '.' :: d := by
  unfold domainEntryMatches at h
  simp only [hw, Bool.false_eq_true, if_false, Bool.or_eq_true, beq_iff_eq, Bool.and_eq_true] at h
  rcases h with h | ⟨_, h⟩
  · exact Or.inl h
  · exact Or.inr ((hasSuffix_iff _ _).1 h)

/-- (H2) A matching rule whose permitted domains are all plain names has one of them among the
    dot-suffixes of the source hostname (which is then not empty). -/
theorem matches_domain (ext : Ext) (r : NetRule) (q : Request) (hwf : DomainsWF r)
    (h : r.matches ext q = true) (hpd : r.permDomains ≠ [])
    (hwild : ∀ d ∈ r.permDomains, Bytes.hasSuffix d (lit ".*") = false) :
    q.sourceHostname ≠ [] ∧ ∃ d ∈ r.permDomains, d ∈ getSubdomains q.sourceHostname := by
  have hs := matches_sourceDomain ext r q h
  unfold matchSourceDomain at hs
  have hpe : r.permDomains.isEmpty = false := by cases hc : r.permDomains <;> simp_all
  simp only [hpe, Bool.false_and, Bool.false_eq_true, if_false, Bool.not_false, Bool.true_and] at hs
  have hany : isDomainOrSubdomainOfAny ext q.sourceHostname r.permDomains = true := by
    cases hc : isDomainOrSubdomainOfAny ext q.sourceHostname r.permDomains with
    | true => rfl
    | false => rw [hc] at hs; simp at hs
  obtain ⟨d, hd, hm⟩ := List.any_eq_true.1 hany
  obtain ⟨hne, hdot⟩ := hwf d hd
  have hcase := domainEntry_plain ext _ d (hwild d hd) hm
  refine ⟨?_, d, hd, mem_getSubdomains _ d hne hdot hcase⟩
  rcases hcase with h1 | ⟨x, h1⟩
  · rw [h1]; exact hne
  · rw [h1]; simp

/-- `Match` does not read the list id. -/
theorem matches_listID (ext : Ext) (r : NetRule) (id : Int) (q : Request) :
    ({ r with listID := id } : NetRule).matches ext q = r.matches ext q := rfl

end UF.B

import UF.Spec.Result
import UF.Proofs.Priority
import UF.Proofs.Badfilter
/- Helper lemmas for C06. -/
namespace UF

/-! ### the two filters -/

theorem removeDNSRewriteRules_eq (rules : List NetRule) :
    removeDNSRewriteRules rules = rules.filter (·.rewrite.isNone) := by
  unfold removeDNSRewriteRules
  induction rules with
  | nil => rfl
  | cons x xs ih =>
    rw [List.findIdx?_cons]
    cases hx : x.rewrite.isSome with
    | true =>
      simp only [if_true, List.take_zero, List.nil_append, List.drop_zero]
      rw [foldl_append_if]; simp
    | false =>
      have hxn : x.rewrite.isNone = true := by
        cases h : x.rewrite with
        | none => rfl
        | some v => rw [h] at hx; simp at hx
      simp only [Bool.false_eq_true, if_false, List.filter_cons, hxn, if_true]
      cases hf : xs.findIdx? (fun r => r.rewrite.isSome) with
      | none =>
        rw [hf] at ih
        simp only [Option.map_none]
        simp only at ih
        rw [← ih]
      | some i =>
        rw [hf] at ih
        simp only [Option.map_some, List.take_succ_cons, List.drop_succ_cons, List.cons_append]
        simp only at ih
        rw [ih]

/-- After both filters exactly the effective rules are left, in order. -/
theorem effective_eq (rules : List NetRule) :
    removeDNSRewriteRules (removeBadfilterRules rules) = rules.filter (effectiveIn rules) := by
  rw [removeDNSRewriteRules_eq, removeBadfilterRules_eq_spec, specRemoveBad, List.filter_filter]
  apply List.filter_congr
  intro r _
  unfold effectiveIn
  have : rules.any (fun b => b.badfilter && negatesBadfilter b r) = rules.any (fun b => isTwin b r) := by
    apply any_congr_mem
    intro b _
    rw [negatesBadfilter_eq_isTwin]
    unfold isTwin
    cases b.badfilter <;> simp
  rw [this, Bool.and_comm]

/-! ### the verdict class of the selected rule -/

theorem classRank_cases (r : NetRule) :
    (classRank r = 3 ∧ r.whitelist = true ∧ r.important = true) ∨
    (classRank r = 2 ∧ r.whitelist = false ∧ r.important = true) ∨
    (classRank r = 1 ∧ r.whitelist = true ∧ r.important = false) ∨
    (classRank r = 0 ∧ r.whitelist = false ∧ r.important = false) := by
  unfold classRank
  cases r.whitelist <;> cases r.important <;> simp

/-- The class of the winner of the selection scan follows the documented precedence. -/
theorem classOf_selectBest (C : List NetRule) :
    classOf (selectBest C) = precedence (fun _ => true) C := by
  unfold precedence
  simp only [Bool.true_and]
  cases h : selectBest C with
  | none =>
    have := (selectBest_none C).mp h
    subst this; rfl
  | some w =>
    obtain ⟨hw, hmax⟩ := fold_max C w h
    have hrank : ∀ r ∈ C, classRank r ≤ classRank w := by
      intro r hr
      apply Nat.le_of_not_lt
      intro hlt
      exact hmax r hr (Or.inl hlt)
    simp only [classOf]
    by_cases h3 : C.any (fun r => r.whitelist && r.important) = true
    · simp only [h3, if_true]
      obtain ⟨r, hr, hr3⟩ := List.any_eq_true.mp h3
      simp only [Bool.and_eq_true] at hr3
      have := hrank r hr
      rcases classRank_cases r with c | c | c | c <;> rcases classRank_cases w with d | d | d | d <;>
        simp_all <;> omega
    · have h3' : C.any (fun r => r.whitelist && r.important) = false := by simpa using h3
      simp only [h3', Bool.false_eq_true, if_false]
      have hw3 := List.any_eq_false.mp h3' w hw
      by_cases h2 : C.any (fun r => !r.whitelist && r.important) = true
      · simp only [h2, if_true]
        obtain ⟨r, hr, hr2⟩ := List.any_eq_true.mp h2
        simp only [Bool.and_eq_true, Bool.not_eq_true'] at hr2
        have := hrank r hr
        rcases classRank_cases r with c | c | c | c <;> rcases classRank_cases w with d | d | d | d <;>
          simp_all <;> omega
      · have h2' : C.any (fun r => !r.whitelist && r.important) = false := by simpa using h2
        simp only [h2', Bool.false_eq_true, if_false]
        have hw2 := List.any_eq_false.mp h2' w hw
        by_cases h1 : C.any (fun r => r.whitelist) = true
        · simp only [h1, if_true]
          obtain ⟨r, hr, hr1⟩ := List.any_eq_true.mp h1
          have := hrank r hr
          have hr3 := List.any_eq_false.mp h3' r hr
          rcases classRank_cases r with c | c | c | c <;> rcases classRank_cases w with d | d | d | d <;>
            simp_all <;> omega
        · have h1' : C.any (fun r => r.whitelist) = false := by simpa using h1
          simp only [h1', Bool.false_eq_true, if_false]
          have hw1 := List.any_eq_false.mp h1' w hw
          have hw0 : w.whitelist = false := by simpa using hw1
          have : C.any (fun r => !r.whitelist) = true := List.any_eq_true.mpr ⟨w, hw, by simp [hw0]⟩
          simp [this, hw0]

/-- `precedence` over a filtered list. -/
theorem precedence_filter (c c' : NetRule → Bool) (l : List NetRule) :
    precedence c' (l.filter c) = precedence (fun r => c r && c' r) l := by
  unfold precedence
  simp only [List.any_filter, Bool.and_assoc]

theorem any_or' {α} (l : List α) (f g : α → Bool) : (l.any f || l.any g) = l.any (fun x => f x || g x) := by
  induction l with
  | nil => rfl
  | cons x xs ih =>
    simp only [List.any_cons, ← ih]
    cases f x <;> cases g x <;> cases xs.any f <;> cases xs.any g <;> rfl

theorem length_bne_zero {α} (l : List α) : (l.length != 0) = l.any (fun _ => true) := by
  cases l <;> simp

/-! ### the loops -/

theorem foldl_selectStep_filter (p : NetRule → Bool) (l : List NetRule) (init : Option NetRule) :
    l.foldl (fun b r => if p r then selectStep b r else b) init = (l.filter p).foldl selectStep init := by
  induction l generalizing init with
  | nil => rfl
  | cons x xs ih =>
    simp only [List.foldl_cons, List.filter_cons]
    cases p x <;> simp [ih]

/-- The first loop of `NewMatchingResult`. -/
theorem sourceScan_eq (l : List NetRule) (s : SourceScan) :
    ((l.foldl sourceStep s).documentRule = (l.filter isDocumentWhitelistRule).foldl selectStep s.documentRule) ∧
    ((l.foldl sourceStep s).basicAllowed =
      (s.basicAllowed && !l.any (fun r => isDocumentWhitelistRule r && r.isEnabled Facts.OptionUrlblock))) ∧
    ((l.foldl sourceStep s).genericAllowed =
      (s.genericAllowed && !l.any (fun r => isDocumentWhitelistRule r && r.isEnabled Facts.OptionGenericblock))) := by
  induction l generalizing s with
  | nil => simp
  | cons x xs ih =>
    simp only [List.foldl_cons]
    obtain ⟨h1, h2, h3⟩ := ih (sourceStep s x)
    rw [h1, h2, h3]
    unfold sourceStep
    cases hd : isDocumentWhitelistRule x <;> cases hu : x.isEnabled Facts.OptionUrlblock <;>
      cases hg : x.isEnabled Facts.OptionGenericblock <;> cases hs : x.isEnabled Facts.OptionStealth <;>
      simp [hd, hu, hg]

/-- Which rules the second loop offers to the selection. -/
def loopCandidate (basicAllowed genericAllowed : Bool) (r : NetRule) : Bool :=
  !r.isEnabled Facts.OptionCookie && !r.isEnabled Facts.OptionReplace && !r.isEnabled Facts.OptionCsp &&
    !r.isEnabled Facts.OptionStealth &&
    !(!r.whitelist && (!basicAllowed || (!genericAllowed && r.isGeneric)))

/-- The second loop of `NewMatchingResult`. -/
theorem ruleScan_eq (ba ga : Bool) (l : List NetRule) (m : MatchingResult) :
    ((l.foldl (ruleStep ba ga) m).basicRule = (l.filter (loopCandidate ba ga)).foldl selectStep m.basicRule) ∧
    ((l.foldl (ruleStep ba ga) m).documentRule = m.documentRule) ∧
    ((l.foldl (ruleStep ba ga) m).replaceRules =
      m.replaceRules ++ l.filter (fun r => !r.isEnabled Facts.OptionCookie && r.isEnabled Facts.OptionReplace)) := by
  induction l generalizing m with
  | nil => simp
  | cons x xs ih =>
    simp only [List.foldl_cons]
    obtain ⟨h1, h2, h3⟩ := ih (ruleStep ba ga m x)
    rw [h1, h2, h3]
    have hlc : loopCandidate ba ga x = (!x.isEnabled Facts.OptionCookie && !x.isEnabled Facts.OptionReplace &&
        !x.isEnabled Facts.OptionCsp && !x.isEnabled Facts.OptionStealth &&
        !(!x.whitelist && (!ba || (!ga && x.isGeneric)))) := rfl
    simp only [List.filter_cons, hlc]
    unfold ruleStep
    cases hc : x.isEnabled Facts.OptionCookie <;> cases hr : x.isEnabled Facts.OptionReplace <;>
      cases hp : x.isEnabled Facts.OptionCsp <;> cases hs : x.isEnabled Facts.OptionStealth <;>
      cases hskip : (!x.whitelist && (!ba || (!ga && x.isGeneric))) <;>
      simp

/-- The loop of `GetDNSBasicRule`. -/
def dnsLoopCandidate (r : NetRule) : Bool :=
  !(r.isEnabled Facts.OptionCookie || r.isEnabled Facts.OptionCsp || r.isEnabled Facts.OptionStealth)

theorem dnsBasicLoop_eq (l : List NetRule) (best : Option NetRule) :
    dnsBasicLoop l best =
      if l.any (fun r => r.isEnabled Facts.OptionReplace) then none
      else (l.filter dnsLoopCandidate).foldl selectStep best := by
  induction l generalizing best with
  | nil => simp [dnsBasicLoop]
  | cons x xs ih =>
    unfold dnsBasicLoop
    have hlc : dnsLoopCandidate x = !(x.isEnabled Facts.OptionCookie || x.isEnabled Facts.OptionCsp ||
        x.isEnabled Facts.OptionStealth) := rfl
    simp only [List.filter_cons, hlc, List.any_cons, ih]
    cases hr : x.isEnabled Facts.OptionReplace <;>
      cases hs : (x.isEnabled Facts.OptionCookie || x.isEnabled Facts.OptionCsp || x.isEnabled Facts.OptionStealth) <;>
      simp

end UF

namespace UF

theorem precedence_congr (c c' : NetRule → Bool) (l : List NetRule) (h : ∀ r ∈ l, c r = c' r) :
    precedence c l = precedence c' l := by
  unfold precedence
  rw [any_congr_mem l (fun r => c r && (r.whitelist && r.important)) (fun r => c' r && (r.whitelist && r.important))
        (fun r hr => by rw [h r hr]),
      any_congr_mem l (fun r => c r && (!r.whitelist && r.important)) (fun r => c' r && (!r.whitelist && r.important))
        (fun r hr => by rw [h r hr]),
      any_congr_mem l (fun r => c r && r.whitelist) (fun r => c' r && r.whitelist) (fun r hr => by rw [h r hr]),
      any_congr_mem l (fun r => c r && !r.whitelist) (fun r => c' r && !r.whitelist) (fun r hr => by rw [h r hr])]

theorem precedence_ne_none_of_some (C : List NetRule) (b : NetRule) (h : selectBest C = some b) :
    precedence (fun _ => true) C ≠ .none := by
  rw [← classOf_selectBest, h]
  unfold classOf
  cases hb : b.whitelist <;> simp [hb]

/-- The flags of the first loop are the reference's `U` and `G`. -/
theorem src_flags (src : List NetRule) :
    ((src.filter (effectiveIn src)).any (fun r => isDocumentWhitelistRule r && r.isEnabled Facts.OptionUrlblock)
      = srcUrlblock src) ∧
    ((src.filter (effectiveIn src)).any (fun r => isDocumentWhitelistRule r && r.isEnabled Facts.OptionGenericblock)
      = srcGenericblock src) ∧
    ((src.filter (effectiveIn src)).any isDocumentWhitelistRule = (srcUrlblock src || srcGenericblock src)) := by
  unfold srcUrlblock srcGenericblock
  simp only [List.any_filter]
  refine ⟨?_, ?_, ?_⟩
  · apply any_congr_mem; intro r _
    unfold isDocumentWhitelistRule
    cases effectiveIn src r <;> cases r.whitelist <;> cases r.isEnabled Facts.OptionUrlblock <;>
      cases r.isEnabled Facts.OptionGenericblock <;> rfl
  · apply any_congr_mem; intro r _
    unfold isDocumentWhitelistRule
    cases effectiveIn src r <;> cases r.whitelist <;> cases r.isEnabled Facts.OptionUrlblock <;>
      cases r.isEnabled Facts.OptionGenericblock <;> rfl
  · rw [any_or']
    apply any_congr_mem; intro r _
    unfold isDocumentWhitelistRule
    cases effectiveIn src r <;> cases r.whitelist <;> cases r.isEnabled Facts.OptionUrlblock <;>
      cases r.isEnabled Facts.OptionGenericblock <;> rfl

/-- Model of the web verdict = reference, for ALL rule lists; the `$replace` early return is made
    explicit. -/
theorem webClass_eq (rules src : List NetRule) :
    classOf (getBasicResult (newMatchingResult rules src)) =
      if webReplaceTrigger rules then .none else classWeb rules src := by
  unfold newMatchingResult
  simp only [effective_eq]
  obtain ⟨hd, hb, hg⟩ := sourceScan_eq (src.filter (effectiveIn src)) {}
  obtain ⟨hU, hG, hUG⟩ := src_flags src
  simp only [Bool.true_and] at hb hg
  rw [hU] at hb; rw [hG] at hg
  generalize hs : (src.filter (effectiveIn src)).foldl sourceStep {} = s at hd hb hg
  obtain ⟨h1, h2, h3⟩ := ruleScan_eq s.basicAllowed s.genericAllowed (rules.filter (effectiveIn rules))
    { documentRule := s.documentRule, stealthRule := s.stealthRule }
  generalize hm : (rules.filter (effectiveIn rules)).foldl (ruleStep s.basicAllowed s.genericAllowed)
    { documentRule := s.documentRule, stealthRule := s.stealthRule } = m at h1 h2 h3
  simp only [List.nil_append] at h3
  unfold getBasicResult
  have htrig : (m.replaceRules.length != 0) = webReplaceTrigger rules := by
    rw [h3, length_bne_zero, List.any_filter, List.any_filter]
    unfold webReplaceTrigger
    apply any_congr_mem
    intro r _; simp
  rw [htrig]
  cases webReplaceTrigger rules with
  | true => rfl
  | false =>
    simp only [Bool.false_eq_true, if_false]
    -- the candidates of the loop are the reference candidates
    have hcand : ∀ r ∈ rules, webCandidate rules src r =
        (effectiveIn rules r && loopCandidate s.basicAllowed s.genericAllowed r) := by
      intro r _
      unfold webCandidate loopCandidate isSpecial
      rw [hb, hg]
      cases effectiveIn rules r <;> cases r.isEnabled Facts.OptionCookie <;> cases r.isEnabled Facts.OptionReplace <;>
        cases r.isEnabled Facts.OptionCsp <;> cases r.isEnabled Facts.OptionStealth <;> cases r.whitelist <;>
        cases srcUrlblock src <;> cases srcGenericblock src <;> cases r.isGeneric <;> rfl
    have hprec : precedence (webCandidate rules src) rules =
        classOf (selectBest ((rules.filter (effectiveIn rules)).filter (loopCandidate s.basicAllowed s.genericAllowed))) := by
      rw [classOf_selectBest, precedence_filter, precedence_filter]
      apply precedence_congr
      intro r hr; rw [hcand r hr]; simp
    unfold classWeb
    rw [hprec, h1]
    show classOf (match selectBest _ with | none => m.documentRule | some b => some b) = _
    cases hsel : selectBest ((rules.filter (effectiveIn rules)).filter (loopCandidate s.basicAllowed s.genericAllowed)) with
    | some b =>
      simp only [classOf]
      cases b.whitelist <;> rfl
    | none =>
      simp only [classOf]
      rw [h2]
      show classOf s.documentRule = _
      rw [hd]
      show classOf (selectBest _) = _
      rw [← hUG]
      cases hdoc : selectBest ((src.filter (effectiveIn src)).filter isDocumentWhitelistRule) with
      | none =>
        have := (selectBest_none _).mp hdoc
        have hany : (src.filter (effectiveIn src)).any isDocumentWhitelistRule = false := by
          apply List.any_eq_false.mpr
          intro r hr hdw
          have : r ∈ (src.filter (effectiveIn src)).filter isDocumentWhitelistRule := List.mem_filter.mpr ⟨hr, hdw⟩
          rw [‹List.filter isDocumentWhitelistRule _ = []›] at this
          cases this
        rw [hany]; rfl
      | some d =>
        have hdm := (fold_max _ d hdoc).1
        have hdw := (List.mem_filter.mp hdm).2
        have hany : (src.filter (effectiveIn src)).any isDocumentWhitelistRule = true :=
          List.any_eq_true.mpr ⟨d, (List.mem_filter.mp hdm).1, hdw⟩
        rw [hany]
        have : d.whitelist = true := by
          unfold isDocumentWhitelistRule at hdw
          simp only [Bool.and_eq_true] at hdw
          exact hdw.1
        simp [classOf, this]

/-- Model of the DNS verdict = reference, for ALL rule lists. -/
theorem dnsClass_eq (rules : List NetRule) :
    classOf (getDNSBasicRule rules) = if dnsReplaceTrigger rules then .none else classDns rules := by
  unfold getDNSBasicRule
  rw [effective_eq, dnsBasicLoop_eq]
  have htrig : (rules.filter (effectiveIn rules)).any (fun r => r.isEnabled Facts.OptionReplace) = dnsReplaceTrigger rules := by
    unfold dnsReplaceTrigger; rw [List.any_filter]
  rw [htrig]
  cases ht : dnsReplaceTrigger rules with
  | true => rfl
  | false =>
    simp only [Bool.false_eq_true, if_false]
    show classOf (selectBest _) = _
    rw [classOf_selectBest, precedence_filter, precedence_filter]
    unfold classDns
    symm
    apply precedence_congr
    intro r hr
    -- no effective rule carries `$replace`
    have hrep : effectiveIn rules r = true → r.isEnabled Facts.OptionReplace = false := by
      intro he
      have := List.any_eq_false.mp ht r hr
      simpa [he] using this
    unfold dnsCandidate dnsLoopCandidate isSpecial
    cases he : effectiveIn rules r with
    | false => simp
    | true =>
      rw [hrep he]
      cases r.isEnabled Facts.OptionCookie <;> cases r.isEnabled Facts.OptionCsp <;>
        cases r.isEnabled Facts.OptionStealth <;> simp

/-! ### permutation invariance of the references -/

theorem effectiveIn_perm (a b : List NetRule) (h : a.Perm b) (r : NetRule) : effectiveIn a r = effectiveIn b r := by
  unfold effectiveIn; rw [h.any_eq]

theorem precedence_perm (c : NetRule → Bool) (a b : List NetRule) (h : a.Perm b) :
    precedence c a = precedence c b := by
  unfold precedence; simp only [h.any_eq]

theorem classWeb_perm (rules rules' src src' : List NetRule) (h : rules.Perm rules') (hs : src.Perm src') :
    classWeb rules src = classWeb rules' src' := by
  have hU : srcUrlblock src = srcUrlblock src' := by
    unfold srcUrlblock; rw [hs.any_eq]; apply any_congr_mem; intro r _; rw [effectiveIn_perm src src' hs]
  have hG : srcGenericblock src = srcGenericblock src' := by
    unfold srcGenericblock; rw [hs.any_eq]; apply any_congr_mem; intro r _; rw [effectiveIn_perm src src' hs]
  have hc : webCandidate rules src = webCandidate rules' src' := by
    funext r; unfold webCandidate; rw [effectiveIn_perm rules rules' h, hU, hG]
  unfold classWeb
  rw [hc, precedence_perm _ rules rules' h, hU, hG]

theorem classDns_perm (rules rules' : List NetRule) (h : rules.Perm rules') : classDns rules = classDns rules' := by
  have hc : dnsCandidate rules = dnsCandidate rules' := by
    funext r; unfold dnsCandidate; rw [effectiveIn_perm rules rules' h]
  unfold classDns
  rw [hc, precedence_perm _ rules rules' h]

theorem webReplaceTrigger_perm (rules rules' : List NetRule) (h : rules.Perm rules') :
    webReplaceTrigger rules = webReplaceTrigger rules' := by
  unfold webReplaceTrigger; rw [h.any_eq]; apply any_congr_mem; intro r _; rw [effectiveIn_perm rules rules' h]

theorem dnsReplaceTrigger_perm (rules rules' : List NetRule) (h : rules.Perm rules') :
    dnsReplaceTrigger rules = dnsReplaceTrigger rules' := by
  unfold dnsReplaceTrigger; rw [h.any_eq]; apply any_congr_mem; intro r _; rw [effectiveIn_perm rules rules' h]

theorem trigger_false_of_no_replace (rules : List NetRule) (h : ∀ r ∈ rules, r.isEnabled Facts.OptionReplace = false) :
    webReplaceTrigger rules = false ∧ dnsReplaceTrigger rules = false := by
  unfold webReplaceTrigger dnsReplaceTrigger
  constructor <;> (apply List.any_eq_false.mpr; intro r hr; simp [h r hr])

end UF

namespace UF

/-- The basic rule of a web result is an effective, non-special rule of the list. -/
theorem basicRule_mem (rules src : List NetRule) (b : NetRule)
    (h : (newMatchingResult rules src).basicRule = some b) :
    b ∈ rules ∧ effectiveIn rules b = true ∧ isSpecial b = false := by
  unfold newMatchingResult at h
  simp only [effective_eq] at h
  generalize (src.filter (effectiveIn src)).foldl sourceStep {} = s at h
  obtain ⟨h1, _, _⟩ := ruleScan_eq s.basicAllowed s.genericAllowed (rules.filter (effectiveIn rules))
    { documentRule := s.documentRule, stealthRule := s.stealthRule }
  rw [h1] at h
  have hm := (fold_max _ b h).1
  have h2 := List.mem_filter.mp hm
  have h3 := List.mem_filter.mp h2.1
  refine ⟨h3.1, h3.2, ?_⟩
  have := h2.2
  unfold loopCandidate at this
  unfold isSpecial
  revert this
  cases b.isEnabled Facts.OptionCookie <;> cases b.isEnabled Facts.OptionReplace <;>
    cases b.isEnabled Facts.OptionCsp <;> cases b.isEnabled Facts.OptionStealth <;> simp

/-- The DNS basic rule is an effective, non-special rule of the list. -/
theorem dnsBasicRule_mem (rules : List NetRule) (b : NetRule) (h : getDNSBasicRule rules = some b) :
    b ∈ rules ∧ effectiveIn rules b = true ∧ isSpecial b = false := by
  unfold getDNSBasicRule at h
  rw [effective_eq, dnsBasicLoop_eq] at h
  cases ht : (rules.filter (effectiveIn rules)).any (fun r => r.isEnabled Facts.OptionReplace) with
  | true => rw [ht] at h; simp at h
  | false =>
    rw [ht] at h
    simp only [Bool.false_eq_true, if_false] at h
    have hm := (fold_max _ b h).1
    have h2 := List.mem_filter.mp hm
    have h3 := List.mem_filter.mp h2.1
    refine ⟨h3.1, h3.2, ?_⟩
    have hrep : b.isEnabled Facts.OptionReplace = false := by
      have := List.any_eq_false.mp ht b h2.1
      simpa using this
    have := h2.2
    unfold dnsLoopCandidate at this
    unfold isSpecial
    rw [hrep]
    revert this
    cases b.isEnabled Facts.OptionCookie <;> cases b.isEnabled Facts.OptionCsp <;>
      cases b.isEnabled Facts.OptionStealth <;> simp

end UF

import UF.Proofs.MaskText
/-
  C03, semantic level (theorem A): the expression `maskAst p mc` accepts, under unanchored search,
  exactly the strings of the documented mask language `maskAccepts p mc` -- for subjects without a
  line feed (`.` does not match `\n`; the property quantifies over printable ASCII).
-/
namespace UF.Mask
open UF UF.Re UF.MaskSpec

/-- No line feed in the subject. -/
def NoNL (u : Bytes) : Prop := ∀ b ∈ u, b ≠ 10

theorem NoNL.tail {b : UInt8} {u : Bytes} (h : NoNL (b :: u)) : NoNL u :=
  fun x hx => h x (List.mem_cons_of_mem _ hx)

theorem NoNL.head {b : UInt8} {u : Bytes} (h : NoNL (b :: u)) : b ≠ 10 := h b (by simp)

/-! ### Matching a list of atoms in sequence -/

def catK : List Re → (St → Bool) → St → Bool
  | [], k, s => k s
  | a :: rest, k, s => a.m s (catK rest k)

theorem mkCat_m (l : List Re) (s : St) (k : St → Bool) : (mkCat l).m s k = catK l k s := by
  induction l generalizing s k with
  | nil => simp [mkCat, Re.m, catK]
  | cons a t ih =>
    cases t with
    | nil => simp [mkCat, catK]
    | cons b t' =>
      simp only [mkCat, Re.m, catK]
      congr 1
      funext u
      rw [ih]; rfl

theorem catK_append (l1 l2 : List Re) (k : St → Bool) (s : St) :
    catK (l1 ++ l2) k s = catK l1 (catK l2 k) s := by
  induction l1 generalizing s with
  | nil => rfl
  | cons a t ih =>
    simp only [List.cons_append, catK]
    congr 1
    funext u
    exact ih u

theorem foldCase_mkCat (l : List Re) : (mkCat l).foldCase = mkCat (l.map foldCase) := by
  induction l with
  | nil => rfl
  | cons a t ih =>
    cases t with
    | nil => rfl
    | cons b t' => simp only [mkCat, foldCase, List.map_cons] at ih ⊢; rw [ih]

/-- `(?i)` or not, atom by atom. -/
def fcAtom (mc : Bool) (a : Re) : Re := if mc then a else a.foldCase

theorem maskAst_eq (p : MaskPat) (mc : Bool) : maskAst p mc = mkCat ((maskAtoms p).map (fcAtom mc)) := by
  cases mc with
  | true =>
    have : (fcAtom true) = id := by funext a; simp [fcAtom]
    simp [maskAst, this]
  | false =>
    have : (fcAtom false) = foldCase := by funext a; simp [fcAtom]
    simp [maskAst, this, foldCase_mkCat]

/-! ### Facts about bytes, by evaluation -/

set_option maxRecDepth 100000 in
theorem sepCls_eq (f : Bool) : ∀ b : UInt8,
    clsMatch true [(32, 32), (97, 122), (65, 90), (48, 57), (46, 46), (37, 37), (95, 95), (45, 45)] f b = isSep b := by
  cases f <;> (apply forall_u8; decide)

set_option maxRecDepth 100000 in
theorem hostCls_eq (mc : Bool) : ∀ b : UInt8,
    clsMatch false [(97, 122), (48, 57), (45, 45), (95, 95), (46, 46)] (!mc) b = isHostChar mc b := by
  cases mc <;> (apply forall_u8; decide)

set_option maxRecDepth 100000 in
theorem byteEq_dot (f : Bool) : ∀ b : UInt8, byteEq f b 46 = (b == 46) := by
  cases f <;> (apply forall_u8; decide)

theorem byteEq_eqc (mc : Bool) (b c : UInt8) : byteEq (!mc) b c = eqc mc c b := by
  have hc : ∀ x y : UInt8, (x == y) = (y == x) := fun x y => by
    by_cases h : x = y
    · subst h; rfl
    · have h' : ¬ y = x := fun e => h e.symm
      simp [h, h']
  cases mc with
  | true => simp [byteEq, eqc, hc b c]
  | false =>
    simp only [byteEq, Bool.not_false, Bool.true_and, eqc, Bool.false_eq_true, ↓reduceIte]
    rw [hc (Bytes.lowerByte c)]
    by_cases h : b = c
    · subst h; simp
    · simp [h]

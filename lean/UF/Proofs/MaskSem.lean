import UF.Proofs.MaskText
/-
  C03, semantic level (theorem A): the expression `maskAst p mc` accepts, under unanchored search,
  exactly the strings of the documented mask language `maskAccepts p mc` -- for subjects without a
  line feed (`.` does not match `\n`; the property quantifies over printable ASCII).
-/
namespace UF.Mask
open UF UF.Re UF.MaskSpec

/-- No line feed in the subject. -/
def NoNL (u : Bytes) : Prop := ∀ b ∈ u, b ≠ 10

theorem NoNL.tail {b : UInt8} {u : Bytes} (h : NoNL (b :: u)) : NoNL u :=
  fun x hx => h x (List.mem_cons_of_mem _ hx)

theorem NoNL.head {b : UInt8} {u : Bytes} (h : NoNL (b :: u)) : b ≠ 10 := h b (by simp)

/-! ### Matching a list of atoms in sequence -/

def catK : List Re → (St → Bool) → St → Bool
  | [], k, s => k s
  | a :: rest, k, s => a.m s (catK rest k)

theorem mkCat_m (l : List Re) (s : St) (k : St → Bool) : (mkCat l).m s k = catK l k s := by
  induction l generalizing s k with
  | nil => simp [mkCat, Re.m, catK]
  | cons a t ih =>
    cases t with
    | nil => simp [mkCat, catK]
    | cons b t' =>
      simp only [mkCat, Re.m, catK]
      congr 1
      funext u
      rw [ih]; rfl

theorem catK_append (l1 l2 : List Re) (k : St → Bool) (s : St) :
    catK (l1 ++ l2) k s = catK l1 (catK l2 k) s := by
  induction l1 generalizing s with
  | nil => rfl
  | cons a t ih =>
    simp only [List.cons_append, catK]
    congr 1
    funext u
    exact ih u

theorem foldCase_mkCat (l : List Re) : (mkCat l).foldCase = mkCat (l.map foldCase) := by
  induction l with
  | nil => rfl
  | cons a t ih =>
    cases t with
    | nil => rfl
    | cons b t' => simp only [mkCat, foldCase, List.map_cons] at ih ⊢; rw [ih]

/-- `(?i)` or not, atom by atom. -/
def fcAtom (mc : Bool) (a : Re) : Re := if mc then a else a.foldCase

theorem maskAst_eq (p : MaskPat) (mc : Bool) : maskAst p mc = mkCat ((maskAtoms p).map (fcAtom mc)) := by
  cases mc with
  | true =>
    have : (fcAtom true) = id := by funext a; simp [fcAtom]
    simp [maskAst, this]
  | false =>
    have : (fcAtom false) = foldCase := by funext a; simp [fcAtom]
    simp [maskAst, this, foldCase_mkCat]

/-! ### Facts about bytes, by evaluation -/

set_option maxRecDepth 100000 in
theorem sepCls_eq (f : Bool) : ∀ b : UInt8,
    clsMatch true [(32, 32), (97, 122), (65, 90), (48, 57), (46, 46), (37, 37), (95, 95), (45, 45)] f b = isSep b := by
  cases f <;> (apply forall_u8; decide)

set_option maxRecDepth 100000 in
theorem hostCls_eq (mc : Bool) : ∀ b : UInt8,
    clsMatch false [(97, 122), (48, 57), (45, 45), (95, 95), (46, 46)] (!mc) b = isHostChar mc b := by
  cases mc <;> (apply forall_u8; decide)

set_option maxRecDepth 100000 in
theorem byteEq_dot (f : Bool) : ∀ b : UInt8, byteEq f b 46 = (b == 46) := by
  cases f <;> (apply forall_u8; decide)

theorem byteEq_eqc (mc : Bool) (b c : UInt8) : byteEq (!mc) b c = eqc mc c b := by
  have hc : ∀ x y : UInt8, (x == y) = (y == x) := fun x y => by
    by_cases h : x = y
    · subst h; rfl
    · have h' : ¬ y = x := fun e => h e.symm
      rw [beq_eq_false_iff_ne.mpr h, beq_eq_false_iff_ne.mpr h']
  cases mc with
  | true => simp [byteEq, eqc, hc b c]
  | false =>
    simp only [byteEq, Bool.not_false, Bool.true_and, eqc, Bool.false_eq_true, ↓reduceIte]
    rw [hc (Bytes.lowerByte c)]
    by_cases h : b = c
    · subst h; simp
    · simp [h]

/-! ### The body tokens -/

theorem lit_m (f : Bool) (c : UInt8) (pre post : Bytes) (k : St → Bool) :
    (Re.lit [c] f).m ⟨pre, post⟩ k =
      match post with
      | [] => false
      | b :: post' => byteEq f b c && k ⟨b :: pre, post'⟩ := by
  cases post with
  | nil => simp [Re.m, litStep]
  | cons b post' =>
    simp only [Re.m, litStep]
    cases byteEq f b c <;> simp

theorem single_m (p : UInt8 → Bool) (pre post : Bytes) (k : St → Bool) :
    single p ⟨pre, post⟩ k =
      match post with
      | [] => false
      | b :: post' => p b && k ⟨b :: pre, post'⟩ := by
  cases post <;> simp [single]

/-- `.*` tries every suffix (no line feed in the way). -/
theorem starAny_m (f : St → (St → Bool) → Bool) (hf : ∀ s k, f s k = single (fun b => b != 10) s k)
    (k : St → Bool) (g : Bytes → Bool)
    (hk : ∀ pre post, NoNL post → k ⟨pre, post⟩ = g post) :
    ∀ (n : Nat) (pre post : Bytes), post.length ≤ n → NoNL post →
      starLoop f n ⟨pre, post⟩ k = anySuffix g post := by
  intro n
  induction n with
  | zero =>
    intro pre post hl hn
    have : post = [] := List.eq_nil_of_length_eq_zero (by omega)
    subst this
    simp [starLoop, anySuffix, hk pre [] hn]
  | succ n ih =>
    intro pre post hl hn
    cases post with
    | nil => simp [starLoop, anySuffix, hk pre [] hn, hf, single]
    | cons b post' =>
      have hb : (b != 10) = true := by simpa using hn.head
      simp only [starLoop, hf, single_m, anySuffix, hk pre _ hn, hb, Bool.true_and]
      rw [ih (b :: pre) post' (by simpa using hl) hn.tail]
      simp

theorem fcAtom_lit (mc : Bool) (c : UInt8) : fcAtom mc (litAtom c) = .lit [c] (!mc) := by
  cases mc <;> rfl

theorem fcAtom_star (mc : Bool) : fcAtom mc (.star .any) = .star .any := by cases mc <;> rfl

theorem fcAtom_sep (mc : Bool) : fcAtom mc sepAst =
    .grp (.alt (.cls true [(32, 32), (97, 122), (65, 90), (48, 57), (46, 46), (37, 37), (95, 95), (45, 45)] (!mc)) .eol) := by
  cases mc <;> rfl

theorem fcAtom_eol (mc : Bool) : fcAtom mc .eol = .eol := by cases mc <;> rfl
theorem fcAtom_bol (mc : Bool) : fcAtom mc .bol = .bol := by cases mc <;> rfl

/-- The atoms of the body tokens (and the end marker) accept exactly what `matchBody` accepts. -/
theorem body_sem (mc e : Bool) : ∀ (ts : List Tok) (pre post : Bytes), NoNL post →
    catK ((ts.map tokAtom ++ endAtoms e).map (fcAtom mc)) (fun _ => true) ⟨pre, post⟩
      = matchBody mc e ts post := by
  intro ts
  induction ts with
  | nil =>
    intro pre post _
    cases e with
    | true => simp [endAtoms, fcAtom_eol, catK, Re.m, matchBody]
    | false => simp [endAtoms, catK, matchBody]
  | cons t ts ih =>
    intro pre post hn
    cases t with
    | lit c =>
      simp only [List.map_cons, List.cons_append, tokAtom, fcAtom_lit, catK, lit_m]
      cases post with
      | nil => simp [matchBody]
      | cons b post' => simp only [matchBody, byteEq_eqc]; rw [ih (b :: pre) post' hn.tail]
    | star =>
      simp only [List.map_cons, List.cons_append, tokAtom, fcAtom_star, catK, Re.m, matchBody]
      exact starAny_m _ (fun _ _ => rfl) _ _ (fun pre post hn => ih pre post hn) _ pre post (Nat.le_refl _) hn
    | sep =>
      simp only [List.map_cons, List.cons_append, tokAtom, fcAtom_sep, catK, Re.m, single_m]
      cases post with
      | nil =>
        simp only [matchBody, List.isEmpty_nil, Bool.true_and, Bool.false_or]
        exact ih pre [] hn
      | cons b post' =>
        simp only [matchBody, sepCls_eq, List.isEmpty_cons, Bool.false_and, Bool.or_false]
        rw [ih (b :: pre) post' hn.tail]

/-! ### Unanchored search, start markers -/

theorem searchFrom_any (r : Re) (g : Bytes → Bool)
    (hr : ∀ pre post, NoNL post → r.m ⟨pre, post⟩ (fun _ => true) = g post) :
    ∀ (post pre : Bytes), NoNL post → searchFrom r pre post = anySuffix g post := by
  intro post
  induction post with
  | nil => intro pre hn; simp [searchFrom, anySuffix, hr pre [] hn]
  | cons b post ih =>
    intro pre hn
    simp only [searchFrom, anySuffix, hr pre _ hn, ih (b :: pre) hn.tail]

/-- An expression that starts with `^` cannot match at a later position. -/
theorem searchFrom_bol (r : Re) (hr : ∀ pre post, pre ≠ [] → r.m ⟨pre, post⟩ (fun _ => true) = false) :
    ∀ (post pre : Bytes), pre ≠ [] → searchFrom r pre post = false := by
  intro post
  induction post with
  | nil => intro pre hp; simp [searchFrom, hr pre [] hp]
  | cons b post ih =>
    intro pre hp
    simp only [searchFrom, hr pre _ hp, ih (b :: pre) (by simp), Bool.or_false]

theorem search_bol (r : Re) (hr : ∀ pre post, pre ≠ [] → r.m ⟨pre, post⟩ (fun _ => true) = false) (u : Bytes) :
    search r u = r.m ⟨[], u⟩ (fun _ => true) := by
  unfold search
  cases u with
  | nil => rfl
  | cons b post => simp only [searchFrom, searchFrom_bol r hr post [b] (by simp), Bool.or_false]

/-- A run of one-character literals is a prefix test. -/
theorem lits_sem (mc : Bool) (k : St → Bool) (g : Bytes → Bool)
    (hk : ∀ pre post, NoNL post → k ⟨pre, post⟩ = g post) :
    ∀ (bs pre post : Bytes), NoNL post →
      catK (bs.map fun c => Re.lit [c] (!mc)) k ⟨pre, post⟩ =
        match stripPrefix mc bs post with
        | some r => g r
        | none => false := by
  intro bs
  induction bs with
  | nil => intro pre post hn; simp [catK, stripPrefix, hk pre post hn]
  | cons c bs ih =>
    intro pre post hn
    simp only [List.map_cons, catK, lit_m]
    cases post with
    | nil => simp [stripPrefix]
    | cons b post' =>
      simp only [stripPrefix, byteEq_eqc]
      cases h : eqc mc c b with
      | false => simp
      | true => simp only [Bool.true_and, ↓reduceIte]; exact ih (b :: pre) post' hn.tail

theorem afterSubdomains_pos (mc : Bool) (f : Bytes → Bool) :
    ∀ (s : Bytes) (n m : Nat), n > 0 → m > 0 → afterSubdomains mc f n s = afterSubdomains mc f m s := by
  intro s
  induction s with
  | nil => intros; rfl
  | cons x s ih =>
    intro n m hn hm
    simp only [afterSubdomains, hn, hm, decide_true, Bool.and_true]
    rw [ih (n + 1) (m + 1) (by omega) (by omega)]

/-- `[a-z0-9-_.]*` followed by `\.`, as the loop of the subdomain part. -/
theorem hostLoop_sem (mc : Bool) (f : St → (St → Bool) → Bool)
    (hf : ∀ s k, f s k = single (clsMatch false [(97, 122), (48, 57), (45, 45), (95, 95), (46, 46)] (!mc)) s k)
    (k : St → Bool) (g : Bytes → Bool) (hk : ∀ pre post, NoNL post → k ⟨pre, post⟩ = g post) :
    ∀ (n : Nat) (pre post : Bytes), post.length ≤ n → NoNL post →
      starLoop f n ⟨pre, post⟩ (fun t => (Re.lit [46] (!mc)).m t k) = afterSubdomains mc g 1 post := by
  intro n
  induction n with
  | zero =>
    intro pre post hl hn
    have : post = [] := List.eq_nil_of_length_eq_zero (by omega)
    subst this
    simp [starLoop, lit_m, afterSubdomains]
  | succ n ih =>
    intro pre post hl hn
    cases post with
    | nil => simp [starLoop, lit_m, afterSubdomains, hf, single]
    | cons b post' =>
      simp only [starLoop, lit_m, hf, single_m, afterSubdomains, byteEq_dot, hostCls_eq,
        hk (b :: pre) post' hn.tail]
      rw [ih (b :: pre) post' (by simpa using hl) hn.tail,
        afterSubdomains_pos mc g post' (1 + 1) 1 (by omega) (by omega)]
      simp

theorem quest_m (a : Re) (s : St) (k : St → Bool) : (Re.quest a).m s k = (k s || a.m s k) := by simp [Re.m]
theorem grp_m (a : Re) (s : St) (k : St → Bool) : (Re.grp a).m s k = a.m s k := by simp [Re.m]
theorem alt_m (a b : Re) (s : St) (k : St → Bool) : (Re.alt a b).m s k = (a.m s k || b.m s k) := by simp [Re.m]
theorem cat_m (a b : Re) (s : St) (k : St → Bool) : (Re.cat a b).m s k = a.m s (fun t => b.m t k) := by simp [Re.m]
theorem plus_m (a : Re) (s : St) (k : St → Bool) :
    (Re.plus a).m s k = a.m s (fun t => starLoop a.m t.post.length t k) := by simp [Re.m]
theorem bol_m (s : St) (k : St → Bool) : Re.bol.m s k = (s.pre.isEmpty && k s) := by simp [Re.m]
theorem cls_m (neg : Bool) (rs : List (UInt8 × UInt8)) (f : Bool) (s : St) (k : St → Bool) :
    (Re.cls neg rs f).m s k = single (clsMatch neg rs f) s k := by simp [Re.m]

/-- One-character literal atoms under the current case mode. -/
def litsF (mc : Bool) (bs : Bytes) : List Re := bs.map fun c => Re.lit [c] (!mc)

/-- `([a-z0-9-_.]+\.)?` under the current case mode. -/
def subdomAst (mc : Bool) : Re :=
  .quest (.grp (.cat (.plus (.cls false [(97, 122), (48, 57), (45, 45), (95, 95), (46, 46)] (!mc))) (.lit [46] (!mc))))

theorem startUrlAtoms_fc (mc : Bool) : startUrlAtoms.map (fcAtom mc) =
    [ .bol,
      .grp (.alt (mkCat (litsF mc [104, 116, 116, 112])) (.alt (mkCat (litsF mc [104, 116, 116, 112, 115]))
        (.alt (mkCat (litsF mc [119, 115])) (mkCat (litsF mc [119, 115, 115]))))),
      .lit [58] (!mc), .lit [47] (!mc), .lit [47] (!mc), subdomAst mc ] := by
  cases mc <;> rfl

theorem subdom_sem (mc : Bool) (k : St → Bool) (g : Bytes → Bool)
    (hk : ∀ pre post, NoNL post → k ⟨pre, post⟩ = g post) (pre post : Bytes) (hn : NoNL post) :
    (subdomAst mc).m ⟨pre, post⟩ k = (g post || afterSubdomains mc g 0 post) := by
  simp only [subdomAst, quest_m, grp_m, cat_m, plus_m, cls_m, single_m, hk pre post hn]
  cases post with
  | nil => simp [afterSubdomains]
  | cons b post' =>
    simp only [hostCls_eq, afterSubdomains]
    rw [hostLoop_sem mc _ (fun s k => cls_m _ _ _ s k) k g hk _ (b :: pre) post' (Nat.le_refl _) hn.tail]
    simp

theorem startUrl_sem (mc : Bool) (rest : List Re) (g : Bytes → Bool)
    (hrest : ∀ pre post, NoNL post → catK rest (fun _ => true) ⟨pre, post⟩ = g post)
    (pre post : Bytes) (hn : NoNL post) :
    catK (startUrlAtoms.map (fcAtom mc) ++ rest) (fun _ => true) ⟨pre, post⟩
      = (pre.isEmpty && afterStartURL mc g post) := by
  rw [startUrlAtoms_fc]
  -- continuation after the scheme group: `://`, the optional subdomains, the rest
  let K5 : St → Bool := fun s => (subdomAst mc).m s (catK rest (fun _ => true))
  have hK5 : ∀ pre post, NoNL post → K5 ⟨pre, post⟩ = (g post || afterSubdomains mc g 0 post) :=
    fun pre post hn => subdom_sem mc _ g hrest pre post hn
  have hsc : ∀ (sc : Bytes),
      (mkCat (litsF mc sc)).m ⟨pre, post⟩
        (catK (Re.lit [58] (!mc) :: Re.lit [47] (!mc) :: Re.lit [47] (!mc) :: subdomAst mc :: rest) (fun _ => true))
      = afterScheme mc g post sc := by
    intro sc
    unfold afterScheme
    rw [mkCat_m]
    have : catK (Re.lit [58] (!mc) :: Re.lit [47] (!mc) :: Re.lit [47] (!mc) :: subdomAst mc :: rest) (fun _ => true)
        = catK (litsF mc [58, 47, 47]) K5 := rfl
    rw [this, ← catK_append, litsF, litsF, ← List.map_append]
    exact lits_sem mc K5 _ hK5 _ pre post hn
  simp only [List.cons_append, List.nil_append]
  rw [catK, bol_m, catK, grp_m, alt_m, alt_m, alt_m, hsc, hsc, hsc, hsc]
  simp [afterStartURL, schemes]

/-! ### Theorem A -/

theorem maskAst_sem (p : MaskPat) (mc : Bool) (u : Bytes) (hany : p.isAny = false) (hn : NoNL u) :
    search (maskAst p mc) u = maskAccepts p mc u := by
  obtain ⟨st, body, e⟩ := p
  have hbody := body_sem mc e body
  unfold maskAccepts
  rw [hany, maskAst_eq]
  simp only [Bool.false_eq_true, ↓reduceIte, maskAtoms, List.append_assoc, List.map_append]
  have hrest : ∀ pre post, NoNL post →
      catK (List.map (fcAtom mc) (List.map tokAtom body) ++ List.map (fcAtom mc) (endAtoms e)) (fun _ => true) ⟨pre, post⟩
        = matchBody mc e body post := by
    intro pre post h
    rw [← List.map_append]; exact hbody pre post h
  cases st with
  | none =>
    simp only [startAtoms, List.map_nil, List.nil_append]
    unfold search
    exact searchFrom_any _ _ (fun pre post h => by rw [mkCat_m]; exact hrest pre post h) u [] hn
  | pipe =>
    simp only [startAtoms, List.map_cons, List.map_nil, fcAtom_bol, List.cons_append, List.nil_append]
    rw [search_bol]
    · rw [mkCat_m, catK, bol_m]; simp only [List.isEmpty_nil, Bool.true_and]; exact hrest [] u hn
    · intro pre post hp
      rw [mkCat_m, catK, bol_m]
      cases pre with
      | nil => exact absurd rfl hp
      | cons _ _ => rfl
  | dbl =>
    simp only [startAtoms]
    rw [search_bol]
    · rw [mkCat_m, startUrl_sem mc _ _ hrest [] u hn]; rfl
    · intro pre post hp
      rw [mkCat_m, startUrlAtoms_fc]
      simp only [List.cons_append]
      rw [catK, bol_m]
      cases pre with
      | nil => exact absurd rfl hp
      | cons _ _ => rfl

end UF.Mask

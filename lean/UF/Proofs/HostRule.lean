import UF.Model.HostRule
import UF.Spec.HostLine
import UF.Proofs.DnsRewriteParse
/-
  Helper lemmas for C18: `splitNextByWhitespace` in structural form, the token reference,
  the names loop, and `NewHostRule` = the token reference for every line.
-/
namespace UF.H
open Bytes

/-! ### takeWhile / dropWhile arithmetic -/

theorem take_length_takeWhile {α} (p : α → Bool) (l : List α) :
    l.take (l.takeWhile p).length = l.takeWhile p := by
  induction l with
  | nil => simp
  | cons a t ih =>
    simp only [List.takeWhile_cons]
    split <;> simp [ih]

theorem drop_length_takeWhile {α} (p : α → Bool) (l : List α) :
    l.drop (l.takeWhile p).length = l.dropWhile p := by
  induction l with
  | nil => simp
  | cons a t ih =>
    simp only [List.takeWhile_cons, List.dropWhile_cons]
    split <;> simp [ih]

theorem length_takeWhile_le {α} (p : α → Bool) (l : List α) : (l.takeWhile p).length ≤ l.length := by
  induction l with
  | nil => simp
  | cons a t ih =>
    simp only [List.takeWhile_cons]
    split <;> simp <;> omega

theorem length_dropWhile_le {α} (p : α → Bool) (l : List α) : (l.dropWhile p).length ≤ l.length := by
  induction l with
  | nil => simp
  | cons a t ih =>
    simp only [List.dropWhile_cons]
    split <;> simp <;> omega

theorem dropWhile_head_not {α} (p : α → Bool) (l : List α) :
    ∀ c t, l.dropWhile p = c :: t → p c = false := by
  induction l with
  | nil => intro c t h; simp at h
  | cons a r ih =>
    intro c t h
    simp only [List.dropWhile_cons] at h
    split at h
    · exact ih c t h
    · rename_i hp
      cases h
      simpa using hp

/-! ### `splitNextByWhitespace`, structurally -/

def notBlank (c : UInt8) : Bool := !isBlank c

/-- The three pieces `splitNextByWhitespace` computes. -/
def splitTok (s : Bytes) : Bytes := (s.dropWhile isBlank).takeWhile notBlank
def splitRest (s : Bytes) : Bytes := ((s.dropWhile isBlank).dropWhile notBlank).dropWhile isBlank

theorem splitNextByWhitespace_eq (s : Bytes) :
    splitNextByWhitespace s = .ok (splitTok s, splitRest s) := by
  unfold splitNextByWhitespace
  -- b, e, i
  have hb : scanWhile isBlank s 0 = (s.takeWhile isBlank).length := by simp [scanWhile]
  have hs1 : s.drop (s.takeWhile isBlank).length = s.dropWhile isBlank := drop_length_takeWhile _ _
  have he : scanWhile (fun c => !isBlank c) s (s.takeWhile isBlank).length =
      (s.takeWhile isBlank).length + ((s.dropWhile isBlank).takeWhile notBlank).length := by
    simp only [scanWhile, hs1]; rfl
  have hble : (s.takeWhile isBlank).length ≤ s.length := length_takeWhile_le _ _
  have hs1len : (s.dropWhile isBlank).length = s.length - (s.takeWhile isBlank).length := by
    rw [← hs1]; simp
  have htw2 : ((s.dropWhile isBlank).takeWhile notBlank).length ≤ (s.dropWhile isBlank).length :=
    length_takeWhile_le _ _
  have hs2 : s.drop ((s.takeWhile isBlank).length + ((s.dropWhile isBlank).takeWhile notBlank).length) =
      (s.dropWhile isBlank).dropWhile notBlank := by
    rw [← List.drop_drop, hs1, drop_length_takeWhile]
  simp only [hb, he]
  rw [sliceE_of_le (by omega) (by omega)]
  simp only
  have hi : scanWhile isBlank s ((s.takeWhile isBlank).length + ((s.dropWhile isBlank).takeWhile notBlank).length) =
      (s.takeWhile isBlank).length + ((s.dropWhile isBlank).takeWhile notBlank).length +
        (((s.dropWhile isBlank).dropWhile notBlank).takeWhile isBlank).length := by
    simp only [scanWhile, hs2]
  have htw3 : (((s.dropWhile isBlank).dropWhile notBlank).takeWhile isBlank).length ≤
      ((s.dropWhile isBlank).dropWhile notBlank).length := length_takeWhile_le _ _
  have hs2len : ((s.dropWhile isBlank).dropWhile notBlank).length =
      s.length - ((s.takeWhile isBlank).length + ((s.dropWhile isBlank).takeWhile notBlank).length) := by
    rw [← hs2]; simp
  rw [hi, sliceE_of_le (by omega) (Nat.le_refl _)]
  simp only
  refine congrArg Except.ok (Prod.ext ?_ ?_)
  · -- the token
    show List.drop _ (List.take _ s) = splitTok s
    rw [List.drop_take, hs1]
    simp only [Nat.add_sub_cancel_left]
    exact take_length_takeWhile _ _
  · -- the rest
    show List.drop _ (List.take _ s) = splitRest s
    simp only [splitRest, List.take_length]
    rw [← List.drop_drop, hs2, drop_length_takeWhile]

theorem splitNextByWhitespace_noPanic (s : Bytes) : splitNextByWhitespace s ≠ .error .panic := by
  rw [splitNextByWhitespace_eq]; simp

theorem splitRest_length_lt {s : Bytes} (h : s ≠ []) : (splitRest s).length < s.length := by
  -- either a blank or a token byte is consumed
  unfold splitRest
  cases s with
  | nil => exact absurd rfl h
  | cons c t =>
    have h1 := length_dropWhile_le isBlank (((c :: t).dropWhile isBlank).dropWhile notBlank)
    have h2 := length_dropWhile_le notBlank ((c :: t).dropWhile isBlank)
    by_cases hc : isBlank c = true
    · have h3 : ((c :: t).dropWhile isBlank) = t.dropWhile isBlank := by simp [hc]
      have h4 := length_dropWhile_le isBlank t
      rw [h3] at h1 h2 ⊢
      simp only [List.length_cons]
      omega
    · have h3 : ((c :: t).dropWhile isBlank) = c :: t := by simp [hc]
      have h5 : ((c :: t).dropWhile notBlank) = t.dropWhile notBlank := by
        simp [notBlank, hc]
      have h4 := length_dropWhile_le notBlank t
      rw [h3] at h1 ⊢
      rw [h5] at h1 ⊢
      simp only [List.length_cons]
      omega

end UF.H

namespace UF.H
open Bytes

/-! ### The token reference -/

theorem blankTokens_go_cons (s cur : Bytes) (h : cur ≠ []) :
    blankTokens.go s cur =
      (cur.reverse ++ s.takeWhile notBlank) :: blankTokens.go (s.dropWhile notBlank) [] := by
  induction s generalizing cur with
  | nil =>
    cases cur with
    | nil => exact absurd rfl h
    | cons a r => simp [blankTokens.go]
  | cons c t ih =>
    by_cases hc : isBlank c = true
    · cases cur with
      | nil => exact absurd rfl h
      | cons a r => simp [blankTokens.go, hc, notBlank]
    · have hc' : isBlank c = false := by simpa using hc
      rw [blankTokens.go]
      simp only [hc', Bool.false_eq_true, if_false]
      rw [ih (c :: cur) (by simp)]
      simp [notBlank, hc']

theorem blankTokens_dropWhile (s : Bytes) : blankTokens (s.dropWhile isBlank) = blankTokens s := by
  induction s with
  | nil => rfl
  | cons c t ih =>
    by_cases hc : isBlank c = true
    · simp only [List.dropWhile_cons, hc, if_true]
      rw [ih]
      simp [blankTokens, blankTokens.go, hc]
    · simp [hc]

theorem blankTokens_cons_notBlank (c : UInt8) (t : Bytes) (hc : isBlank c = false) :
    blankTokens (c :: t) =
      (c :: t).takeWhile notBlank :: blankTokens ((c :: t).dropWhile notBlank) := by
  unfold blankTokens
  rw [blankTokens.go]
  simp only [hc, Bool.false_eq_true, if_false]
  rw [blankTokens_go_cons t [c] (by simp)]
  simp [notBlank, hc]

/-- For a string that does not start with a blank: first token and the tokens of the rest. -/
theorem blankTokens_split (s : Bytes) (hne : s ≠ []) (hs : ∀ c t, s = c :: t → isBlank c = false) :
    blankTokens s = splitTok s :: blankTokens (splitRest s) := by
  cases s with
  | nil => exact absurd rfl hne
  | cons c t =>
    have hc := hs c t rfl
    have hd : (c :: t).dropWhile isBlank = c :: t := by simp [hc]
    rw [blankTokens_cons_notBlank c t hc]
    simp only [splitTok, splitRest, hd]
    rw [blankTokens_dropWhile]

theorem blankTokens_nil : blankTokens [] = [] := rfl

/-! ### The names loop -/

theorem hostNamesLoop_eq (fuel : Nat) :
    ∀ (s : Bytes) (acc : List Bytes), s.length ≤ fuel →
      (∀ c t, s = c :: t → isBlank c = false) →
      hostNamesLoop fuel s acc = .ok (acc.reverse ++ blankTokens s) := by
  induction fuel with
  | zero =>
    intro s acc hlen _
    have : s = [] := List.eq_nil_of_length_eq_zero (by omega)
    subst this
    simp [hostNamesLoop, blankTokens_nil]
  | succ n ih =>
    intro s acc hlen hs
    by_cases hne : s = []
    · subst hne
      simp [hostNamesLoop, blankTokens_nil]
    · have hl : (s.length == 0) = false := by
        cases s with
        | nil => exact absurd rfl hne
        | cons c t => simp
      rw [hostNamesLoop]
      simp only [hl, Bool.false_eq_true, if_false, splitNextByWhitespace_eq]
      have hlt := splitRest_length_lt hne
      rw [ih (splitRest s) (splitTok s :: acc) (by omega)
            (fun c t h => dropWhile_head_not isBlank _ c t (by simpa [splitRest] using h))]
      rw [blankTokens_split s hne hs]
      simp

/-- The loop with the fuel `NewHostRule`'s model uses never runs out of it. -/
theorem hostNamesLoop_fuel (s : Bytes) (hs : ∀ c t, s = c :: t → isBlank c = false) :
    hostNamesLoop s.length s [] = .ok (blankTokens s) := by
  simpa using hostNamesLoop_eq s.length s [] (Nat.le_refl _) hs

/-! ### `indexByte` -/

theorem indexByte_go_lt (s : Bytes) (c : UInt8) (k i : Nat) (h : indexByte.go c s k = some i) :
    k ≤ i ∧ i < k + s.length := by
  induction s generalizing k with
  | nil => simp [indexByte.go] at h
  | cons a t ih =>
    rw [indexByte.go] at h
    split at h
    · cases h
      simp
    · have := ih (k + 1) h
      simp only [List.length_cons]
      omega

theorem indexByte_lt {s : Bytes} {c : UInt8} {i : Nat} (h : indexByte s c = some i) : i < s.length := by
  have := indexByte_go_lt s c 0 i h
  omega

theorem stripHostComment_eq (text : Bytes) : stripHostComment text = .ok (hostLineBody text) := by
  unfold stripHostComment hostLineBody
  cases hi : indexByte text (ch '#') with
  | none => rfl
  | some i =>
    have := indexByte_lt hi
    simp only
    by_cases h0 : i > 0
    · simp only [h0, if_true]
      rw [sliceE_of_le (Nat.zero_le _) (by omega)]
      simp
    · simp [h0]

theorem dropWhile_dropWhile {α} (p : α → Bool) (l : List α) :
    (l.dropWhile p).dropWhile p = l.dropWhile p := by
  induction l with
  | nil => rfl
  | cons a t ih =>
    by_cases h : p a = true
    · simp [h, ih]
    · simp [h]

/-! ### `NewHostRule` = the token reference, for EVERY line -/

/-- The answer of the reference as a parse result. -/
def specHostResult (ext : Ext) (dn : Bytes → Bool) (text : Bytes) (listID : Int) : Except HErr HostRule :=
  match specHostLine ext dn text with
  | some (names, a) => .ok { text := text, listID := listID, hostnames := names, ip := a }
  | none => .error .reject

theorem splitTok_nil_of {s : Bytes} (h : s.dropWhile isBlank = []) : splitTok s = [] := by
  simp [splitTok, h]

theorem blankTokens_of_dropWhile_nil {s : Bytes} (h : s.dropWhile isBlank = []) : blankTokens s = [] := by
  rw [← blankTokens_dropWhile, h]; rfl

theorem newHostRule_eq_spec (ext : Ext) (dn : Bytes → Bool) (text : Bytes) (listID : Int) :
    newHostRule ext dn text listID = specHostResult ext dn text listID := by
  unfold newHostRule specHostResult specHostLine
  simp only [stripHostComment_eq, splitNextByWhitespace_eq]
  generalize hostLineBody text = body
  -- tokens of the body in terms of the first split
  by_cases h1 : body.dropWhile isBlank = []
  · -- nothing but blanks
    have ht : splitTok body = [] := splitTok_nil_of h1
    have hr : splitRest body = [] := by simp [splitRest, h1]
    have hb : blankTokens body = [] := blankTokens_of_dropWhile_nil h1
    simp only [ht, hr, hb, List.length_nil, beq_self_eq_true, if_true]
    cases hdn : dn [] <;> simp [hdn]
  · -- a first token exists
    have hsplit : blankTokens body = splitTok body :: blankTokens (splitRest body) := by
      rw [← blankTokens_dropWhile]
      have h2 : ∀ c t, body.dropWhile isBlank = c :: t → isBlank c = false :=
        fun c t h => dropWhile_head_not isBlank body c t h
      rw [blankTokens_split _ h1 h2]
      simp [splitTok, splitRest, dropWhile_dropWhile]
    have hrestHead : ∀ c t, splitRest body = c :: t → isBlank c = false :=
      fun c t h => dropWhile_head_not isBlank _ c t (by simpa [splitRest] using h)
    by_cases hr : splitRest body = []
    · simp only [hr, List.length_nil, beq_self_eq_true, if_true, hsplit, blankTokens_nil]
      cases hdn : dn (splitTok body) <;> simp [hdn]
    · have hl : ((splitRest body).length == 0) = false := by
        cases hh : splitRest body with
        | nil => exact absurd hh hr
        | cons c t => simp
      have hnames : blankTokens (splitRest body) ≠ [] := by
        cases hh : splitRest body with
        | nil => exact absurd hh hr
        | cons c t =>
          rw [blankTokens_cons_notBlank c t (hrestHead c t hh)]
          simp
      simp only [hl, Bool.false_eq_true, if_false, hsplit, hostNamesLoop_fuel _ hrestHead]
      cases hn : blankTokens (splitRest body) with
      | nil => exact absurd hn hnames
      | cons n ns =>
        cases ext.parseAddr (splitTok body) <;> simp

end UF.H

namespace UF.H
open Bytes

/-! ### Lines of the grammar -/

theorem indexByte_go_append_hit (c : UInt8) (pre rest : Bytes) (k : Nat)
    (h : pre.all (fun x => x != c) = true) :
    indexByte.go c (pre ++ c :: rest) k = some (k + pre.length) := by
  induction pre generalizing k with
  | nil => simp [indexByte.go]
  | cons a t ih =>
    simp only [List.all_cons, Bool.and_eq_true, bne_iff_ne, ne_eq] at h
    have ha : (a == c) = false := by simpa using h.1
    simp only [List.cons_append, indexByte.go, ha, Bool.false_eq_true, if_false]
    rw [ih (k + 1) h.2]
    simp only [List.length_cons]
    congr 1
    omega

theorem indexByte_go_none (c : UInt8) (s : Bytes) (k : Nat)
    (h : s.all (fun x => x != c) = true) : indexByte.go c s k = none := by
  induction s generalizing k with
  | nil => simp [indexByte.go]
  | cons a t ih =>
    simp only [List.all_cons, Bool.and_eq_true, bne_iff_ne, ne_eq] at h
    have ha : (a == c) = false := by simpa using h.1
    simp only [indexByte.go, ha, Bool.false_eq_true, if_false]
    exact ih (k + 1) h.2

theorem hostLineBody_comment (pre c : Bytes) (hne : pre ≠ []) (hf : hashFree pre = true) :
    hostLineBody (pre ++ ch '#' :: c) = pre := by
  unfold hostLineBody indexByte
  rw [indexByte_go_append_hit _ _ _ _ hf]
  have : 0 < pre.length := List.length_pos_iff.mpr hne
  simp [this]

theorem hostLineBody_plain (pre : Bytes) (hf : hashFree pre = true) : hostLineBody pre = pre := by
  unfold hostLineBody indexByte
  rw [indexByte_go_none _ _ _ hf]

/-- The body of a line `pre ++ comment?` with a non-empty '#'-free `pre`. -/
theorem hostLineBody_tail (pre cmt : Bytes) (hne : pre ≠ []) (hf : hashFree pre = true)
    (hc : isCommentTail cmt = true) : hostLineBody (pre ++ cmt) = pre := by
  cases cmt with
  | nil => simpa using hostLineBody_plain pre hf
  | cons x c =>
    have hx : x = ch '#' := by simpa [isCommentTail] using hc
    subst hx
    exact hostLineBody_comment pre c hne hf

theorem blankTokens_go_append (tok rest cur : Bytes) (h : blankFree tok = true) :
    blankTokens.go (tok ++ rest) cur = blankTokens.go rest (tok.reverse ++ cur) := by
  induction tok generalizing cur with
  | nil => rfl
  | cons a t ih =>
    simp only [blankFree, List.all_cons, Bool.and_eq_true, Bool.not_eq_eq_eq_not, Bool.not_true] at h
    simp only [List.cons_append, blankTokens.go, h.1, Bool.false_eq_true, if_false]
    rw [ih (a :: cur) (by simpa [blankFree] using h.2)]
    simp

/-- `rest` is empty or starts with a blank. -/
def startsBlankOrNil (rest : Bytes) : Bool :=
  match rest with
  | [] => true
  | c :: _ => isBlank c

theorem blankTokens_tok_append (tok rest : Bytes) (hne : tok ≠ []) (h : blankFree tok = true)
    (hr : startsBlankOrNil rest = true) : blankTokens (tok ++ rest) = tok :: blankTokens rest := by
  unfold blankTokens
  rw [blankTokens_go_append tok rest [] h]
  have hrev : tok.reverse ++ [] ≠ [] := by simpa using hne
  cases rest with
  | nil =>
    cases hh : tok.reverse ++ [] with
    | nil => exact absurd hh hrev
    | cons a r =>
      have : (a :: r).reverse = tok := by rw [← hh]; simp
      simp [blankTokens.go, this]
  | cons c r =>
    have hc : isBlank c = true := by simpa [startsBlankOrNil] using hr
    cases hh : tok.reverse ++ [] with
    | nil => exact absurd hh hrev
    | cons a q =>
      have : (a :: q).reverse = tok := by rw [← hh]; simp
      simp [blankTokens.go, hc, this]

theorem blankTokens_blank_append (w rest : Bytes) (h : allBlank w = true) :
    blankTokens (w ++ rest) = blankTokens rest := by
  induction w with
  | nil => rfl
  | cons a t ih =>
    simp only [allBlank, List.all_cons, Bool.and_eq_true] at h
    have : blankTokens (a :: (t ++ rest)) = blankTokens (t ++ rest) := by
      simp [blankTokens, blankTokens.go, h.1]
    rw [List.cons_append, this]
    exact ih (by simpa [allBlank] using h.2)

theorem blankTokens_allBlank (w : Bytes) (h : allBlank w = true) : blankTokens w = [] := by
  have := blankTokens_blank_append w [] h
  rw [List.append_nil] at this
  rw [this]; rfl

theorem startsBlankOrNil_namesText (wn : List (Bytes × Bytes)) (trail : Bytes)
    (hwn : goodPairs wn = true) (ht : allBlank trail = true) :
    startsBlankOrNil (namesText wn ++ trail) = true := by
  cases wn with
  | nil =>
    cases trail with
    | nil => rfl
    | cons c r => simpa [namesText, startsBlankOrNil, allBlank] using (by simpa [allBlank] using ht : isBlank c = true ∧ _).1
  | cons p r =>
    obtain ⟨w, n⟩ := p
    simp only [goodPairs, List.all_cons, Bool.and_eq_true, isBlankRun] at hwn
    obtain ⟨⟨⟨hwne, hwb⟩, _⟩, _⟩ := hwn
    cases w with
    | nil => simp at hwne
    | cons c q =>
      simp only [allBlank, List.all_cons, Bool.and_eq_true] at hwb
      simp [namesText, startsBlankOrNil, hwb.1]

theorem blankTokens_namesText (wn : List (Bytes × Bytes)) (trail : Bytes)
    (hwn : goodPairs wn = true) (ht : allBlank trail = true) :
    blankTokens (namesText wn ++ trail) = wn.map (·.2) := by
  induction wn with
  | nil => simpa [namesText] using blankTokens_allBlank trail ht
  | cons p r ih =>
    obtain ⟨w, n⟩ := p
    have hr : goodPairs r = true := by
      simp only [goodPairs, List.all_cons, Bool.and_eq_true] at hwn
      exact hwn.2
    simp only [goodPairs, List.all_cons, Bool.and_eq_true, isBlankRun, isHostToken] at hwn
    obtain ⟨⟨⟨_, hwb⟩, ⟨⟨hnne, hnb⟩, _⟩⟩, _⟩ := hwn
    have hnne' : n ≠ [] := by
      intro h; subst h; simp at hnne
    simp only [namesText, List.append_assoc, List.map_cons]
    rw [blankTokens_blank_append w _ hwb,
        blankTokens_tok_append n _ hnne' hnb (startsBlankOrNil_namesText r trail hr ht), ih hr]

theorem hashFree_append {a b : Bytes} : hashFree (a ++ b) = (hashFree a && hashFree b) := by
  simp [hashFree]

theorem hashFree_of_allBlank {w : Bytes} (h : allBlank w = true) : hashFree w = true := by
  simp only [allBlank, List.all_eq_true] at h
  simp only [hashFree, List.all_eq_true]
  intro x hx
  have := h x hx
  simp only [isBlank, Bool.or_eq_true, beq_iff_eq] at this
  rcases this with h | h <;> subst h <;> decide

theorem hashFree_namesText (wn : List (Bytes × Bytes)) (hwn : goodPairs wn = true) :
    hashFree (namesText wn) = true := by
  induction wn with
  | nil => rfl
  | cons p r ih =>
    obtain ⟨w, n⟩ := p
    have hr : goodPairs r = true := by
      simp only [goodPairs, List.all_cons, Bool.and_eq_true] at hwn
      exact hwn.2
    simp only [goodPairs, List.all_cons, Bool.and_eq_true, isBlankRun, isHostToken] at hwn
    obtain ⟨⟨⟨_, hwb⟩, ⟨_, hnh⟩⟩, _⟩ := hwn
    simp [namesText, hashFree_append, hashFree_of_allBlank hwb, hnh, ih hr]

end UF.H

import UF.Proofs.EngineMatch
import UF.Spec.DnsEngine
/-
  Lemmas for C02: the mask idiom of `IsHostLevelNetworkRule`, the structure of the DNS engine
  built from a rule list, the host-name table.
-/
namespace UF.B
open UF UF.Bytes

/-- `((e & H) | (e ^ H)) == H` says exactly that `e` has no bit outside `H`. -/
theorem mask_idiom (e H : Nat) :
    ((e &&& H) ||| (e ^^^ H)) = H ↔ ∀ i, e.testBit i = true → H.testBit i = true := by
  constructor
  · intro h i hi
    have := congrArg (fun n => n.testBit i) h
    simp only [Nat.testBit_or, Nat.testBit_and, Nat.testBit_xor, hi] at this
    cases hH : H.testBit i with
    | true => rfl
    | false => rw [hH] at this; simp at this
  · intro h
    apply Nat.eq_of_testBit_eq
    intro i
    simp only [Nat.testBit_or, Nat.testBit_and, Nat.testBit_xor]
    cases he : e.testBit i with
    | false => simp
    | true => simp [h i he]

theorem or_mask (e H : Nat) : (e ||| H) = H ↔ ∀ i, e.testBit i = true → H.testBit i = true := by
  constructor
  · intro h i hi
    have := congrArg (fun n => n.testBit i) h
    simp only [Nat.testBit_or, hi, Bool.true_or] at this
    exact this.symm
  · intro h
    apply Nat.eq_of_testBit_eq
    intro i
    simp only [Nat.testBit_or]
    cases he : e.testBit i with
    | false => simp
    | true => simp [h i he]

theorem isHostLevel_iff' (r : NetRule) :
    isHostLevel r = true ↔
      r.permDomains = [] ∧ r.restrDomains = [] ∧ ¬(r.permTypes ≠ 0 ∧ r.restrTypes ≠ 0) ∧ r.disabled = 0 ∧
      (∀ i, r.enabled.testBit i = true → Facts.OptionHostLevelRulesOnly.testBit i = true) := by
  unfold isHostLevel
  by_cases h1 : r.permDomains = []
  · by_cases h2 : r.restrDomains = []
    · simp only [h1, h2, List.length_nil, Nat.lt_irrefl, decide_false, Bool.or_self, Bool.false_eq_true, if_false,
        true_and, gt_iff_lt]
      by_cases h3 : r.permTypes ≠ 0 ∧ r.restrTypes ≠ 0
      · simp [h3]
      · have h3' : (r.permTypes != 0 && r.restrTypes != 0) = false := by
          cases hc : (r.permTypes != 0 && r.restrTypes != 0) with
          | false => rfl
          | true => simp at hc; exact absurd hc h3
        simp only [h3', Bool.false_eq_true, if_false, h3, not_false_eq_true, true_and]
        by_cases h4 : r.disabled = 0
        · simp only [h4, bne_self_eq_false, Bool.false_eq_true, if_false, true_and]
          by_cases h5 : r.enabled = 0
          · simp [h5]
          · have : (r.enabled != 0) = true := by simpa using h5
            simp only [this, if_true, beq_iff_eq]
            exact mask_idiom _ _
        · have : (r.disabled != 0) = true := by simpa using h4
          simp [this, h4]
    · have : 0 < r.restrDomains.length := List.length_pos_iff.2 h2
      simp [this, h2]
  · have : 0 < r.permDomains.length := List.length_pos_iff.2 h1
    simp [this, h1]

theorem dnsApplicable_eq (r : NetRule) : dnsApplicable r = isHostLevel r := by
  have hH : Facts.OptionImportant ||| Facts.OptionBadfilter = Facts.OptionHostLevelRulesOnly := by decide
  apply Bool.eq_iff_iff.2
  rw [isHostLevel_iff']
  unfold dnsApplicable
  rw [hH]
  simp only [Bool.and_eq_true, List.isEmpty_iff, Bool.not_eq_true', beq_iff_eq, or_mask]
  constructor
  · rintro ⟨⟨⟨⟨h1, h2⟩, h3⟩, h4⟩, h5⟩
    refine ⟨h1, h2, ?_, h4, h5⟩
    rintro ⟨a, b⟩
    simp [a, b] at h3
  · rintro ⟨h1, h2, h3, h4, h5⟩
    refine ⟨⟨⟨⟨h1, h2⟩, ?_⟩, h4⟩, h5⟩
    cases hc : (r.permTypes != 0 && r.restrTypes != 0) with
    | false => rfl
    | true => simp at hc; exact absurd hc h3

theorem hostRule_matches_iff (r : HostRule) (host : Bytes) :
    hostRuleMatches r host = true ↔ host ∈ r.hostnames := by
  unfold hostRuleMatches
  simp only [Bool.or_eq_true, Bool.and_eq_true, decide_eq_true_eq, beq_iff_eq, List.any_eq_true]
  constructor
  · rintro (⟨_, h⟩ | ⟨x, hx, rfl⟩)
    · exact List.mem_of_mem_head? h
    · exact hx
  · intro h; exact Or.inr ⟨host, h, rfl⟩

/-! ### Structure of the built DNS engine -/

theorem dns_foldl_net (hf : HashFns) (k : Nat) (L : List (Rule × Idx)) (d : DnsEngine) :
    (L.foldl (fun d p => d.addRule hf k p.1 p.2) d).net =
      (hostLevelNet L).foldl (fun e p => e.addRule hf k p.1 p.2) d.net := by
  induction L generalizing d with
  | nil => rfl
  | cons p L ih =>
    simp only [List.foldl_cons, ih]
    obtain ⟨rule, idx⟩ := p
    cases rule with
    | net r =>
      by_cases h : isHostLevel r = true
      · simp [hostLevelNet, DnsEngine.addRule, h]
      · simp [hostLevelNet, DnsEngine.addRule, h]
    | host hr => simp [hostLevelNet, DnsEngine.addRule]
    | cos c => simp [hostLevelNet, DnsEngine.addRule]

theorem dns_build_net (hf : HashFns) (k : Nat) (L : List (Rule × Idx)) :
    (DnsEngine.build hf k L).net = Engine.build hf k (hostLevelNet L) := by
  unfold DnsEngine.build Engine.build
  exact dns_foldl_net hf k L {}

theorem dns_foldl_hosts (hf : HashFns) (k : Nat) (L : List (Rule × Idx)) (d : DnsEngine) (i : Idx) (x : UInt32) :
    i ∈ hget [] (L.foldl (fun d p => d.addRule hf k p.1 p.2) d).hosts x ↔
      i ∈ hget [] d.hosts x ∨ ∃ hr, (Rule.host hr, i) ∈ L ∧ ∃ n ∈ hr.hostnames, x = hf.h n := by
  induction L generalizing d with
  | nil => simp
  | cons p L ih =>
    simp only [List.foldl_cons, ih]
    obtain ⟨rule, idx⟩ := p
    cases rule with
    | net r =>
      have : (d.addRule hf k (Rule.net r) idx).hosts = d.hosts := by
        simp only [DnsEngine.addRule]; split <;> rfl
      simp [this]
    | cos c =>
      simp [DnsEngine.addRule]
    | host hr =>
      simp only [DnsEngine.addRule, mem_foldl_pushIdx, List.mem_cons, Prod.mk.injEq, Rule.host.injEq]
      constructor
      · rintro ((h | ⟨rfl, n, hn, rfl⟩) | ⟨hr', h, n, hn, rfl⟩)
        · exact Or.inl h
        · exact Or.inr ⟨hr, Or.inl ⟨rfl, rfl⟩, n, hn, rfl⟩
        · exact Or.inr ⟨hr', Or.inr h, n, hn, rfl⟩
      · rintro (h | ⟨hr', (⟨rfl, rfl⟩ | h), n, hn, rfl⟩)
        · exact Or.inl (Or.inl h)
        · exact Or.inl (Or.inr ⟨rfl, n, hn, rfl⟩)
        · exact Or.inr ⟨hr', h, n, hn, rfl⟩

theorem dns_build_hosts (hf : HashFns) (k : Nat) (L : List (Rule × Idx)) (i : Idx) (x : UInt32) :
    i ∈ hget [] (DnsEngine.build hf k L).hosts x ↔
      ∃ hr, (Rule.host hr, i) ∈ L ∧ ∃ n ∈ hr.hostnames, x = hf.h n := by
  unfold DnsEngine.build
  rw [dns_foldl_hosts]
  simp [hget]

theorem mem_hostLevelNet (L : List (Rule × Idx)) (r : NetRule) (i : Idx) :
    (r, i) ∈ hostLevelNet L ↔ (Rule.net r, i) ∈ L ∧ isHostLevel r = true := by
  unfold hostLevelNet
  simp only [List.mem_filterMap]
  constructor
  · rintro ⟨⟨rule, idx⟩, hp, h⟩
    cases rule with
    | net r' =>
      simp only at h
      split at h
      · rename_i hl; cases h; exact ⟨hp, hl⟩
      · cases h
    | host _ => cases h
    | cos _ => cases h
  · rintro ⟨hp, hl⟩
    exact ⟨(Rule.net r, i), hp, by simp [hl]⟩

theorem mem_netRulesOf (L : List Rule) (r : NetRule) : r ∈ netRulesOf L ↔ Rule.net r ∈ L := by
  unfold netRulesOf
  simp only [List.mem_filterMap]
  constructor
  · rintro ⟨rule, h, hr⟩
    cases rule <;> simp at hr
    subst hr; exact h
  · intro h; exact ⟨_, h, rfl⟩

theorem mem_hostRulesOf (L : List Rule) (r : HostRule) : r ∈ hostRulesOf L ↔ Rule.host r ∈ L := by
  unfold hostRulesOf
  simp only [List.mem_filterMap]
  constructor
  · rintro ⟨rule, h, hr⟩
    cases rule <;> simp at hr
    subst hr; exact h
  · intro h; exact ⟨_, h, rfl⟩

theorem hostLevelNet_length (L : List (Rule × Idx)) : (hostLevelNet L).length ≤ L.length := by
  unfold hostLevelNet; exact List.length_filterMap_le _ _

/-- The host-name table: bucket, retrieval and re-`Match` return exactly the host rules naming `host`
    (whatever collides in the bucket is filtered out). -/
theorem mem_matchLookupTable (hf : HashFns) (k : Nat) (retrieve : Idx → Option Rule)
    (L : List (Rule × Idx)) (hret : RetrievalOK retrieve L) (host : Bytes) (hr : HostRule) :
    hr ∈ (DnsEngine.build hf k L).matchLookupTable hf retrieve host ↔
      hr ∈ (hostRulesOf (L.map (·.1))).filter (fun hr => hr.hostnames.contains host) := by
  unfold DnsEngine.matchLookupTable
  simp only [List.mem_filterMap, List.mem_filter, mem_hostRulesOf, List.contains_iff_mem, List.mem_map]
  constructor
  · rintro ⟨idx, hidx, h⟩
    obtain ⟨hr0, h0, _⟩ := (dns_build_hosts hf k L idx _).1 hidx
    have hr0' := hret _ h0
    simp only at hr0'
    simp only [retrieveHost, hr0'] at h
    split at h
    · rename_i hm; cases h
      exact ⟨⟨_, h0, rfl⟩, (hostRule_matches_iff _ _).1 hm⟩
    · cases h
  · rintro ⟨⟨⟨rule, idx⟩, hp, hrule⟩, hmem⟩
    simp only at hrule
    subst hrule
    refine ⟨idx, (dns_build_hosts hf k L idx _).2 ⟨hr, hp, host, hmem, rfl⟩, ?_⟩
    have := hret _ hp
    simp only at this
    simp [retrieveHost, this, (hostRule_matches_iff hr host).2 hmem]

end UF.B

import UF.Spec.Shortcut
import UF.Proofs.Regex
import UF.Proofs.ShortcutBytes
/-
  Helper lemmas for C05:
   * `den_lits` / `search_lits`   – every required literal is a factor of the lower-cased matched text;
   * `pickLongest_sound`          – the selection loop only returns justified candidates;
   * `findShortcutLoop_inv`       – the mask loop never panics and returns `""` or a maximal run;
   * `den_mkCat_*`, `search_litAtoms` – a run of literal atoms in a concatenation is a factor of every match.
-/
namespace UF
open Bytes Re

/-! ### Required literals -/

theorem den_lits (r : Re) : ∀ (s t : St), Den r s t → ∀ w, s.post = w ++ t.post →
    ∀ l ∈ requiredLits r, hasSub (toLower w) l = true := by
  induction r with
  | lit bs fold =>
    intro s t h w hw l hl
    cases h with
    | lit h =>
      obtain ⟨x, h1, _, h3⟩ := litStep_shape _ _ _ _ h
      have : w = x := List.append_cancel_right (hw.symm.trans h1)
      subst this
      simp only [requiredLits, List.mem_singleton] at hl
      subst hl
      rw [h3]
      exact hasSub_refl _
  | cat a b iha ihb =>
    intro s u h w hw l hl
    cases h with
    | @cat _ _ _ t _ h1 h2 =>
      obtain ⟨w1, e1, _⟩ := h1.shape
      obtain ⟨w2, e2, _⟩ := h2.shape
      have : w = w1 ++ w2 := List.append_cancel_right (bs := u.post) (by rw [← hw, e1, e2]; simp)
      subst this
      rw [toLower_append]
      simp only [requiredLits, List.mem_append] at hl
      rcases hl with hl | hl
      · exact hasSub_append_left _ (iha _ _ h1 _ e1 l hl)
      · exact hasSub_append_right _ (ihb _ _ h2 _ e2 l hl)
  | grp a iha =>
    intro s t h w hw l hl
    cases h with
    | grp h => exact iha _ _ h w hw l (by simpa [requiredLits] using hl)
  | plus a iha =>
    intro s u h w hw l hl
    cases h with
    | @plus _ _ t _ h1 h2 =>
      obtain ⟨w1, e1, _⟩ := h1.shape
      obtain ⟨w2, e2, _⟩ := h2.shape
      have : w = w1 ++ w2 := List.append_cancel_right (bs := u.post) (by rw [← hw, e1, e2]; simp)
      subst this
      rw [toLower_append]
      exact hasSub_append_left _ (iha _ _ h1 _ e1 l (by simpa [requiredLits] using hl))
  | rep a m mx iha =>
    intro s u h w hw l hl
    cases h with
    | repU0 _ => simp [requiredLits] at hl
    | repB0 => simp [requiredLits] at hl
    | repBO _ _ => simp [requiredLits] at hl
    | @repUS _ _ _ t _ h1 h2 =>
      obtain ⟨w1, e1, _⟩ := h1.shape
      obtain ⟨w2, e2, _⟩ := h2.shape
      have : w = w1 ++ w2 := List.append_cancel_right (bs := u.post) (by rw [← hw, e1, e2]; simp)
      subst this
      rw [toLower_append]
      exact hasSub_append_left _ (iha _ _ h1 _ e1 l (by simpa [requiredLits] using hl))
    | @repBS _ _ _ _ t _ h1 h2 =>
      obtain ⟨w1, e1, _⟩ := h1.shape
      obtain ⟨w2, e2, _⟩ := h2.shape
      have : w = w1 ++ w2 := List.append_cancel_right (bs := u.post) (by rw [← hw, e1, e2]; simp)
      subst this
      rw [toLower_append]
      exact hasSub_append_left _ (iha _ _ h1 _ e1 l (by simpa [requiredLits] using hl))
  | _ => intro s t _ w _ l hl; simp [requiredLits] at hl

/-- Every required literal is a factor of the lower-cased subject of any successful search. -/
theorem search_lits (r : Re) (u : Bytes) (h : search r u = true) :
    ∀ l ∈ requiredLits r, hasSub (toLower u) l = true := by
  intro l hl
  obtain ⟨x, y, z, rfl, hd⟩ := (search_iff r _).1 h
  have := den_lits r _ _ hd y rfl l hl
  rw [toLower_append, toLower_append]
  exact hasSub_append_left _ (hasSub_append_right _ this)

theorem requiredLits_foldCase (r : Re) : requiredLits r.foldCase = requiredLits r := by
  induction r with
  | cat a b iha ihb => simp [foldCase, requiredLits, iha, ihb]
  | grp a iha => simp [foldCase, requiredLits, iha]
  | plus a iha => simp [foldCase, requiredLits, iha]
  | rep a m mx iha => simp [foldCase, requiredLits, iha]
  | _ => simp [foldCase, requiredLits]

theorem loadShortcut_cases (c : Bytes) : loadShortcut c = [] ∨ loadShortcut c = toLower c := by
  unfold loadShortcut
  split
  · exact .inr rfl
  · exact .inl rfl

theorem litsCovered_refl (t : Re) : litsCovered t t = true := by
  simp only [litsCovered, List.all_eq_true, List.any_eq_true]
  intro l hl
  exact ⟨l, hl, hasSub_refl _⟩

theorem litsCovered_foldCase (t : Re) : litsCovered t t.foldCase = true := by
  simp only [litsCovered, requiredLits_foldCase, List.all_eq_true, List.any_eq_true]
  intro l hl
  exact ⟨l, hl, hasSub_refl _⟩

/-- Literals required by `t` are factors of every lower-cased subject accepted by a covering `c`. -/
theorem search_covered (t c : Re) (u : Bytes) (hcov : litsCovered t c = true) (h : search c u = true) :
    ∀ l ∈ requiredLits t, hasSub (toLower u) l = true := by
  intro l hl
  simp only [litsCovered, List.all_eq_true, List.any_eq_true] at hcov
  obtain ⟨l', hl', hsub⟩ := hcov l hl
  exact hasSub_trans (search_lits c u h l' hl') hsub

/-! ### The selection loop of `findRegexpShortcut` -/

theorem pickLongest_sound (parts : List Bytes) (required : List Bytes) :
    pickLongest parts required = [] ∨
      ∃ l ∈ required, hasSub l (toLower (pickLongest parts required)) = true := by
  unfold pickLongest
  suffices h : ∀ (init : Bytes), (init = [] ∨ ∃ l ∈ required, hasSub l (toLower init) = true) →
      (let r := parts.foldl (fun longest part =>
          if part.length > longest.length && isRequiredLiteral part required then part else longest) init
       r = [] ∨ ∃ l ∈ required, hasSub l (toLower r) = true) from h [] (.inl rfl)
  induction parts with
  | nil => intro init h; exact h
  | cons p ps ih =>
    intro init h
    simp only [List.foldl_cons]
    apply ih
    split
    · rename_i hc
      simp only [Bool.and_eq_true, isRequiredLiteral, List.any_eq_true] at hc
      exact .inr hc.2
    · exact h

/-! ### The mask loop -/

theorem elem_maskSpecials (c : UInt8) : List.elem c maskSpecials = isMaskSpecial c := by
  simp only [maskSpecials, isMaskSpecial, List.elem, Bool.or_assoc]
  cases c == 42 <;> cases c == 94 <;> cases c == 124 <;> rfl

theorem indexAny_go_none (chars : Bytes) : ∀ (s : Bytes) (i : Nat), indexAny.go chars s i = none →
    ∀ c ∈ s, List.elem c chars = false := by
  intro s
  induction s with
  | nil => intro i _ c hc; simp at hc
  | cons a t ih =>
    intro i h c hc
    simp only [indexAny.go] at h
    split at h
    · simp at h
    · rename_i ha
      simp only [List.mem_cons] at hc
      rcases hc with rfl | hc
      · simpa using ha
      · exact ih _ h c hc

theorem indexAny_go_some (chars : Bytes) : ∀ (s : Bytes) (i j : Nat), indexAny.go chars s i = some j →
    ∃ x c z, s = x ++ c :: z ∧ j = i + x.length ∧ (∀ d ∈ x, List.elem d chars = false) ∧
      List.elem c chars = true := by
  intro s
  induction s with
  | nil => intro i j h; simp [indexAny.go] at h
  | cons a t ih =>
    intro i j h
    simp only [indexAny.go] at h
    split at h
    · rename_i ha
      simp at h
      exact ⟨[], a, t, rfl, by simp [h], by simp, ha⟩
    · rename_i ha
      obtain ⟨x, c, z, rfl, hj, hx, hc⟩ := ih _ _ h
      refine ⟨a :: x, c, z, rfl, by simp [hj]; omega, ?_, hc⟩
      intro d hd
      simp only [List.mem_cons] at hd
      rcases hd with rfl | hd
      · simpa using ha
      · exact hx d hd

theorem slice_prefix (x : Bytes) (c : UInt8) (z : Bytes) :
    slice? (x ++ c :: z) 0 x.length = some x := by
  simp [slice?]

theorem slice_suffix (x : Bytes) (c : UInt8) (z : Bytes) :
    slice? (x ++ c :: z) (x.length + 1) (x ++ c :: z).length = some z := by
  have h1 : x ++ c :: z = (x ++ [c]) ++ z := by simp
  have h2 : (x ++ [c]).length = x.length + 1 := by simp
  simp only [slice?, List.take_length]
  rw [if_pos ⟨by simp, Nat.le_refl _⟩, h1, ← h2, List.drop_left]

/-- Loop invariant: the remaining `pattern` is a suffix of `p0` that starts right after a separator
    (or at the start), `shortcut` is empty or a maximal run of `p0`; then the loop does not panic and
    its result is empty or a maximal run of `p0`. -/
theorem findShortcutLoop_inv (p0 : Bytes) : ∀ (fuel : Nat) (pattern shortcut pre : Bytes),
    p0 = pre ++ pattern → (pre = [] ∨ ∃ x' c, pre = x' ++ [c] ∧ isMaskSpecial c = true) →
    (shortcut = [] ∨ IsMaskRun p0 shortcut) → pattern.length < fuel →
    ∃ r, findShortcutLoop fuel pattern shortcut = some r ∧ (r = [] ∨ IsMaskRun p0 r) := by
  intro fuel
  induction fuel with
  | zero => intro pattern _ _ _ _ _ h; omega
  | succ fuel ih =>
    intro pattern shortcut pre hp hpre hsc hlen
    simp only [findShortcutLoop]
    split
    · exact ⟨shortcut, rfl, hsc⟩
    · cases hi : indexAny pattern maskSpecials with
      | none =>
        simp only
        split
        · refine ⟨pattern, rfl, .inr ⟨pre, [], by simp [hp], ?_, hpre, .inl rfl⟩⟩
          intro c hc
          rw [← elem_maskSpecials]
          exact indexAny_go_none _ _ _ hi c hc
        · exact ⟨shortcut, rfl, hsc⟩
      | some i =>
        obtain ⟨x, c, z, rfl, hj, hx, hc⟩ := indexAny_go_some _ _ _ _ hi
        simp only [Nat.zero_add] at hj
        subst hj
        rw [elem_maskSpecials] at hc
        have hrun : IsMaskRun p0 x := by
          refine ⟨pre, c :: z, by simp [hp], ?_, hpre, .inr ⟨c, z, rfl, hc⟩⟩
          intro d hd
          rw [← elem_maskSpecials]
          exact hx d hd
        simp only [slice_prefix, slice_suffix]
        have hrec : ∀ sc', (sc' = [] ∨ IsMaskRun p0 sc') →
            ∃ r, findShortcutLoop fuel z sc' = some r ∧ (r = [] ∨ IsMaskRun p0 r) := by
          intro sc' hsc'
          apply ih z sc' (pre ++ x ++ [c]) (by simp [hp]) (.inr ⟨pre ++ x, c, rfl, hc⟩) hsc'
          simp at hlen
          omega
        split
        · simpa using hrec x (.inr hrun)
        · simpa using hrec shortcut hsc

theorem findShortcut_inv (p : Bytes) :
    ∃ r, findShortcut p = some r ∧ (r = [] ∨ IsMaskRun p r) :=
  findShortcutLoop_inv p _ p [] [] rfl (.inl rfl) (.inl rfl) (Nat.lt_succ_self _)

/-! ### Concatenations of atoms -/

theorem den_empty_iff (s t : St) : Den .empty s t ↔ t = s := by
  constructor
  · intro h; cases h; rfl
  · rintro rfl; exact .empty

theorem den_mkCat_cons (a : Re) (rest : List Re) (s u : St) :
    Den (mkCat (a :: rest)) s u ↔ ∃ t, Den a s t ∧ Den (mkCat rest) t u := by
  cases rest with
  | nil =>
    simp only [mkCat, den_empty_iff]
    constructor
    · intro h; exact ⟨u, h, rfl⟩
    · rintro ⟨t, h, rfl⟩; exact h
  | cons b rest =>
    simp only [mkCat]
    constructor
    · intro h; cases h with | cat h1 h2 => exact ⟨_, h1, h2⟩
    · rintro ⟨t, h1, h2⟩; exact .cat h1 h2

theorem den_mkCat_append (as bs : List Re) (s u : St) :
    Den (mkCat (as ++ bs)) s u ↔ ∃ t, Den (mkCat as) s t ∧ Den (mkCat bs) t u := by
  induction as generalizing s with
  | nil =>
    simp only [List.nil_append, mkCat, den_empty_iff]
    constructor
    · intro h; exact ⟨s, rfl, h⟩
    · rintro ⟨t, rfl, h⟩; exact h
  | cons a as ih =>
    simp only [List.cons_append, den_mkCat_cons, ih]
    constructor
    · rintro ⟨t, h1, t', h2, h3⟩; exact ⟨t', ⟨t, h1, h2⟩, h3⟩
    · rintro ⟨t', ⟨t, h1, h2⟩, h3⟩; exact ⟨t, h1, t', h2, h3⟩

theorem den_litAtoms (fold : Bool) : ∀ (w : Bytes) (s t : St), Den (mkCat (litAtoms fold w)) s t →
    ∃ x, s.post = x ++ t.post ∧ toLower x = toLower w := by
  intro w
  induction w with
  | nil =>
    intro s t h
    simp only [litAtoms, List.map_nil, mkCat, den_empty_iff] at h
    subst h
    exact ⟨[], by simp, rfl⟩
  | cons c w ih =>
    intro s u h
    have h' : Den (mkCat (Re.lit [c] fold :: litAtoms fold w)) s u := by simpa [litAtoms] using h
    obtain ⟨t, h1, h2⟩ := (den_mkCat_cons _ _ _ _).1 h'
    obtain ⟨x2, e2, l2⟩ := ih _ _ h2
    cases h1 with
    | lit h1 =>
      obtain ⟨x1, e1, _, l1⟩ := litStep_shape _ _ _ _ h1
      refine ⟨x1 ++ x2, by rw [e1, e2]; simp, ?_⟩
      rw [toLower_append, l1, l2]
      simp [toLower]

/-- A run of literal atoms inside a top-level concatenation is (case-insensitively) a factor of every
    subject the expression accepts. -/
theorem search_litAtoms (as bs : List Re) (fold : Bool) (w u : Bytes)
    (h : search (mkCat (as ++ litAtoms fold w ++ bs)) u = true) :
    hasSub (toLower u) (toLower w) = true := by
  obtain ⟨x, y, z, rfl, hd⟩ := (search_iff _ _).1 h
  obtain ⟨t2, hd12, hd3⟩ := (den_mkCat_append _ _ _ _).1 hd
  obtain ⟨t1, hd1, hd2⟩ := (den_mkCat_append _ _ _ _).1 hd12
  obtain ⟨w1, e1, _⟩ := hd1.shape
  obtain ⟨w2, e2, l2⟩ := den_litAtoms _ _ _ _ hd2
  obtain ⟨w3, e3, _⟩ := hd3.shape
  simp only at e1 e3
  have hy : y = w1 ++ w2 ++ w3 := List.append_cancel_right (bs := z) (by rw [e1, e2, e3]; simp)
  subst hy
  simp only [toLower_append]
  rw [l2]
  exact hasSub_append_left _ (hasSub_append_right _
    (hasSub_append_left _ (hasSub_append_right _ (hasSub_refl _))))

theorem foldCase_mkCat (as : List Re) : (mkCat as).foldCase = mkCat (as.map foldCase) := by
  induction as with
  | nil => rfl
  | cons a as ih =>
    cases as with
    | nil => rfl
    | cons b as => simp only [mkCat, foldCase, List.map_cons] at ih ⊢; rw [ih]

theorem foldCase_litAtoms (fold : Bool) (w : Bytes) : (litAtoms fold w).map foldCase = litAtoms true w := by
  simp [litAtoms, foldCase]

end UF

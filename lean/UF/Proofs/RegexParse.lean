import UF.Model.RegexParse
/-
  General facts about the fold parser, for users of the regex core (group G / C03):
  `run_append` (in the model file), one-step lemmas for plain literals and escaped punctuation from a
  between-atoms state, `parseCore` from a run, and the five constants of rules/regex.go.
-/
namespace UF.Re

/-- A byte that `stepNorm` reads as a literal. -/
def isPlain (c : UInt8) : Bool :=
  !(c == 92 || c == 40 || c == 41 || c == 124 || c == 91 || c == 42 || c == 43 || c == 63 || c == 123 ||
    c == 94 || c == 36 || c == 46) && c < 128

theorem step_plain (s : PState) (c : UInt8) (hm : s.mode = .norm) (hc : isPlain c = true) :
    step s c = some (pushAtom s (.lit [c] false)) := by
  simp only [isPlain, Bool.and_eq_true, Bool.not_eq_true', Bool.or_eq_false_iff, decide_eq_true_eq] at hc
  obtain ⟨⟨⟨⟨⟨⟨⟨⟨⟨⟨⟨⟨h1, h2⟩, h3⟩, h4⟩, h5⟩, h6⟩, h7⟩, h8⟩, h9⟩, h10⟩, h11⟩, h12⟩, h13⟩ := hc
  have h14 : ¬ (c ≥ 128) := by
    intro h; exact absurd h13 (by simpa [UInt8.not_lt] using h)
  simp [step, hm, stepNorm, h1, h2, h3, h4, h5, h6, h7, h8, h9, h10, h11, h12, h14]

/-- `\c` for an escaped punctuation character (and the C escapes) pushes one literal. -/
theorem run_escape (s : PState) (c b : UInt8) (hm : s.mode = .norm)
    (hp : perlClass c = none) (hx : (c == 98 || c == 66 || c == 65 || c == 122 || c == 120) = false)
    (hb : charEscape c = some b) :
    run s [92, c] = some (pushAtom s (.lit [b] false)) := by
  simp only [Bool.or_eq_false_iff] at hx
  obtain ⟨⟨⟨⟨h1, h2⟩, h3⟩, h4⟩, h5⟩ := hx
  simp [run, List.foldlM, step, hm, stepNorm, stepEsc, hp, h1, h2, h3, h4, h5, hb, pushAtom]

theorem parseCore_of_run (p : Bytes) (s : PState) (h : run initState p = some s) :
    parseCore p = finish s := by
  simp [parseCore, h]

theorem finish_norm (s : PState) (hm : s.mode = .norm) (hs : s.stack = []) :
    finish s = if (closeFrame s.top).repOK then some (closeFrame s.top) else none := by
  simp [finish, hm, hs]

/-! The five regex constants of rules/regex.go parse (values as on the pinned tree; group G ties them to
    the generated facts). -/

example : parseRE (UF.lit ".*") = some (.star .any) := by decide
example : parseRE (UF.lit "^") = some .bol := by decide
example : parseRE (UF.lit "$") = some .eol := by decide
example : parseRE (UF.lit "([^ a-zA-Z0-9.%_-]|$)") =
    some (.grp (.alt (.cls true [(32, 32), (97, 122), (65, 90), (48, 57), (46, 46), (37, 37), (95, 95), (45, 45)] false) .eol)) := by
  decide
example : (parseRE (UF.lit "^(http|https|ws|wss)://([a-z0-9-_.]+\\.)?")).isSome = true := by decide

end UF.Re

import UF.Proofs.StorageRetrieve
import UF.Proofs.Pack
/-
  The storage level: distinct ids make `listsMap` a function, the cache only ever holds what the
  lists would answer, and an index reported by the scanner leads back to the line it came from.
-/
namespace UF.Storage

/-! ### Distinct ids -/

theorem hasDupIds_false {ls : List RList} {seen : List Int} (h : hasDupIds ls seen = false) :
    (∀ l ∈ ls, l.id ∉ seen) ∧ ls.Pairwise (fun a b => a.id ≠ b.id) := by
  induction ls generalizing seen with
  | nil => simp
  | cons l ls ih =>
    simp only [hasDupIds, Bool.or_eq_false_iff] at h
    obtain ⟨h1, h2⟩ := h
    obtain ⟨i1, i2⟩ := ih h2
    have h1' : l.id ∉ seen := by simpa using h1
    refine ⟨?_, ?_⟩
    · intro x hx
      simp only [List.mem_cons] at hx
      rcases hx with rfl | hx
      · exact h1'
      · have := i1 x hx
        simp only [List.mem_cons, not_or] at this
        exact this.2
    · refine List.Pairwise.cons ?_ i2
      intro b hb
      have := i1 b hb
      simp only [List.mem_cons, not_or] at this
      exact fun e => this.1 e.symm

theorem hasDupIds_true {ls : List RList} {seen : List Int} (h : hasDupIds ls seen = true) :
    ¬ ls.Pairwise (fun a b => a.id ≠ b.id) ∨ ∃ l ∈ ls, l.id ∈ seen := by
  induction ls generalizing seen with
  | nil => simp [hasDupIds] at h
  | cons l ls ih =>
    simp only [hasDupIds, Bool.or_eq_true] at h
    rcases h with h | h
    · right; exact ⟨l, by simp, by simpa using h⟩
    · rcases ih h with h' | ⟨x, hx, hs⟩
      · left; intro hp; exact h' (List.pairwise_cons.mp hp).2
      · simp only [List.mem_cons] at hs
        rcases hs with hs | hs
        · left; intro hp; exact (List.pairwise_cons.mp hp).1 x hx hs.symm
        · right; exact ⟨x, by simp [hx], hs⟩

theorem findList_of_mem {lists : List RList} (hd : lists.Pairwise (fun a b => a.id ≠ b.id)) {l : RList}
    (hl : l ∈ lists) : findList lists l.id = some l := by
  unfold findList
  induction lists with
  | nil => simp at hl
  | cons a t ih =>
    rw [List.pairwise_cons] at hd
    simp only [List.mem_cons] at hl
    rcases hl with rfl | hl
    · simp [List.find?]
    · have hne : a.id ≠ l.id := hd.1 l hl
      have : (a.id == l.id) = false := by simpa using hne
      simp only [List.find?, this]
      exact ih hd.2 hl

theorem findList_map_file (lists : List RList) (f : RList → Bool) (id : Int) :
    findList (lists.map fun l => { l with file := f l }) id = (findList lists id).map fun l => { l with file := f l } := by
  unfold findList
  induction lists with
  | nil => rfl
  | cons a t ih =>
    simp only [List.map_cons, List.find?]
    cases h : (a.id == id) with
    | true => simp
    | false => simp only [ih]

/-- The backing does not matter to `RetrieveRule` of a list. -/
theorem retrieve_file_irrel (io : IO) (parse : Parser) (l : RList) (b b' : Bool) (i : Int) :
    RList.retrieve io parse { l with file := b } i = RList.retrieve io parse { l with file := b' } i := by
  unfold RList.retrieve
  cases b <;> cases b' <;> simp only [retrieveFile_eq_retrieveString] <;> rfl

/-! ### The cache -/

/-- What `RetrieveRule` computes when the cache does not answer. -/
def lookupRule (io : IO) (parse : Parser) (lists : List RList) (k : BitVec 64) : Retrieved :=
  match findList lists (unpack k).1.toInt with
  | none => .err
  | some l => l.retrieve io parse (unpack k).2.toInt

/-- Every cache entry is what the lists answer for that index (`none` = the typed nil of a failed
    parse). -/
def CacheInv (io : IO) (parse : Parser) (st : RuleStorage) : Prop :=
  ∀ k v, st.cache.lookup k = some v →
    lookupRule io parse st.lists k = (match v with | some r => .rule r | none => .bad)

theorem cacheInv_new (io : IO) (parse : Parser) {lists : List RList} {st : RuleStorage}
    (h : newRuleStorage lists = some st) : CacheInv io parse st ∧ st.lists = lists := by
  unfold newRuleStorage at h
  split at h
  · simp at h
  · simp only [Option.some.injEq] at h
    subst h
    exact ⟨by intro k v hk; simp [List.lookup] at hk, rfl⟩

theorem lookup_cons_eq {k k' : BitVec 64} {v : Option SRule} {c : Cache} :
    List.lookup k ((k', v) :: c) = if k = k' then some v else List.lookup k c := by
  by_cases h : k = k'
  · simp [List.lookup, h]
  · have : (k == k') = false := by simpa using h
    simp [List.lookup, this, h]

/-- One `RetrieveRule` call: the invariant is kept, the lists do not change, and the answer is
    what the lists answer -- except that a failed parse is answered `nilRule` once it is cached. -/
theorem retrieveRule_spec (io : IO) (parse : Parser) (st : RuleStorage) (k : BitVec 64)
    (hinv : CacheInv io parse st) :
    let res := retrieveRule io parse st k
    CacheInv io parse res.2 ∧ res.2.lists = st.lists ∧
      (res.1 = lookupRule io parse st.lists k ∨ (res.1 = .nilRule ∧ lookupRule io parse st.lists k = .bad)) := by
  simp only
  unfold retrieveRule
  cases hc : st.cache.lookup k with
  | some v =>
    have := hinv k v hc
    cases v with
    | some r => simp only; exact ⟨hinv, (by first | rfl | trivial), Or.inl this.symm⟩
    | none => simp only; exact ⟨hinv, (by first | rfl | trivial), Or.inr ⟨(by first | rfl | trivial), this⟩⟩
  | none =>
    simp only
    have hlk : lookupRule io parse st.lists k =
        (match findList st.lists (unpack k).1.toInt with
         | none => .err
         | some l => l.retrieve io parse (unpack k).2.toInt) := rfl
    cases hf : findList st.lists (unpack k).1.toInt with
    | none =>
      rw [hf] at hlk
      simp only
      exact ⟨hinv, (by first | rfl | trivial), Or.inl hlk.symm⟩
    | some l =>
      rw [hf] at hlk
      simp only at hlk ⊢
      cases hr : l.retrieve io parse (unpack k).2.toInt with
      | rule r =>
        simp only
        refine ⟨?_, (by first | rfl | trivial), Or.inl (by rw [hlk, hr])⟩
        intro k' v hk'
        simp only [lookup_cons_eq] at hk'
        by_cases he : k' = k
        · subst he
          simp only [if_true, Option.some.injEq] at hk'
          subst hk'
          simp only
          rw [hlk, hr]
        · simp only [he, if_false] at hk'
          exact hinv k' v hk'
      | bad =>
        simp only
        refine ⟨?_, (by first | rfl | trivial), Or.inl (by rw [hlk, hr])⟩
        intro k' v hk'
        simp only [lookup_cons_eq] at hk'
        by_cases he : k' = k
        · subst he
          simp only [if_true, Option.some.injEq] at hk'
          subst hk'
          simp only
          rw [hlk, hr]
        · simp only [he, if_false] at hk'
          exact hinv k' v hk'
      | panic => simp only; exact ⟨hinv, (by first | rfl | trivial), Or.inl (by rw [hlk, hr])⟩
      | err => simp only; exact ⟨hinv, (by first | rfl | trivial), Or.inl (by rw [hlk, hr])⟩
      | nothing => simp only; exact ⟨hinv, (by first | rfl | trivial), Or.inl (by rw [hlk, hr])⟩
      | nilRule => simp only; exact ⟨hinv, (by first | rfl | trivial), Or.inl (by rw [hlk, hr])⟩

/-! ### From the scanner back to the line -/

theorem scanList_mem {parse : Parser} {id : Int} {ign : Bool} {content : Bytes} {r : SRule} {idx : Nat}
    (h : (r, idx) ∈ scanList parse id ign content) :
    ∃ line, (idx, line) ∈ scanLines content ∧ parse line id = .rule r.kind r.text ∧ r.listID = id ∧
      (ign && r.kind == .cosmetic) = false := by
  unfold scanList at h
  rw [List.mem_filterMap] at h
  obtain ⟨⟨i, line⟩, hm, hp⟩ := h
  simp only at hp
  cases hpl : parse line id with
  | nothing => rw [hpl] at hp; simp at hp
  | error => rw [hpl] at hp; simp at hp
  | rule k t =>
    rw [hpl] at hp
    simp only at hp
    by_cases hc : (ign && k == .cosmetic) = true
    · simp [hc] at hp
    · simp only [hc] at hp
      obtain ⟨rfl, rfl⟩ := hp
      exact ⟨line, hm, hpl, rfl, by simpa using hc⟩

/-- A line the scanner accepted is found again by `StringRuleList.RetrieveRule` at its offset. -/
theorem retrieveString_of_scan {parse : Parser} (hp : TrimsFirst parse) {id : Int} {ign : Bool} {content : Bytes}
    {r : SRule} {idx : Nat} (h : (r, idx) ∈ scanList parse id ign content) :
    retrieveString parse id content (idx : Int) = .rule r := by
  obtain ⟨line, hm, hpl, hid, _⟩ := scanList_mem h
  obtain ⟨hlt, hline⟩ := scanLines_mem hm
  rw [retrieveString_eq _ _ _ _ hlt]
  simp only
  have ht : trimSpace (untilNL (content.drop idx)) = trimSpace line := by
    rw [hline, trimSpace_takeLine]
  rw [ht]
  have hne : trimSpace line ≠ [] := by
    intro e
    have := hp.blank line id e
    rw [this] at hpl
    cases hpl
  have : (trimSpace line).isEmpty = false := by
    cases hx : trimSpace line with
    | nil => exact absurd hx hne
    | cons _ _ => rfl
  simp only [this, Bool.false_eq_true, if_false]
  rw [← hp.trim line id, hpl]
  cases r
  simp only [ofParse] at hid ⊢
  subst hid
  rfl

theorem storageScan_mem {parse : Parser} {lists : List RList} {r : SRule} {k : BitVec 64}
    (h : (r, k) ∈ storageScan parse lists) :
    ∃ l ∈ lists, ∃ idx, (r, idx) ∈ scanList parse l.id l.ignoreCosmetic l.content ∧
      k = pack (BitVec.ofInt 32 l.id) (BitVec.ofNat 32 idx) := by
  unfold storageScan at h
  rw [List.mem_flatMap] at h
  obtain ⟨l, hl, hm⟩ := h
  rw [List.mem_map] at hm
  obtain ⟨⟨r', idx⟩, hm, he⟩ := hm
  simp only [Prod.mk.injEq] at he
  obtain ⟨rfl, rfl⟩ := he
  obtain ⟨_, _, _, hid, _⟩ := scanList_mem hm
  exact ⟨l, hl, idx, hm, by rw [hid]⟩

/-- The well-formedness the property quantifies over: distinct ids that fit `int32`, contents
    shorter than 2^31 bytes. -/
structure ListsOK (lists : List RList) : Prop where
  distinct : hasDupIds lists [] = false
  ids : ∀ l ∈ lists, -2147483648 ≤ l.id ∧ l.id < 2147483648
  sizes : ∀ l ∈ lists, l.content.length < 2147483648

/-- A scanned index, looked up in the lists, gives back the scanned rule. -/
theorem lookupRule_of_scan (io : IO) {parse : Parser} (hp : TrimsFirst parse) {lists : List RList}
    (hok : ListsOK lists) {r : SRule} {k : BitVec 64} (h : (r, k) ∈ storageScan parse lists) :
    lookupRule io parse lists k = .rule r := by
  obtain ⟨l, hl, idx, hm, rfl⟩ := storageScan_mem h
  unfold lookupRule
  rw [unpack_pack]
  simp only
  obtain ⟨hi1, hi2⟩ := hok.ids l hl
  rw [toInt_ofInt32 hi1 hi2, findList_of_mem (hasDupIds_false hok.distinct).2 hl]
  simp only
  obtain ⟨line, hml, _⟩ := scanList_mem hm
  have hlt := (scanLines_mem hml).1
  have hsz := hok.sizes l hl
  rw [toInt_ofNat32 (by omega)]
  unfold RList.retrieve
  split
  · rw [retrieveFile_eq_retrieveString]; exact retrieveString_of_scan hp hm
  · exact retrieveString_of_scan hp hm

end UF.Storage

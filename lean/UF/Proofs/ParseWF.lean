import UF.Model.NewRule
import UF.Spec.Match
import UF.Proofs.MergeSorted
namespace UF.E
open Bytes

/-! ### the scan -/

theorem scanAccepted_append (rx : RuleExt) (id : Int) (a b : List Bytes) :
    scanAccepted rx id (a ++ b) = scanAccepted rx id a ++ scanAccepted rx id b := by
  simp [scanAccepted, List.filterMap_append]

/-- lines that yield no rule are inert for the scan: deleting (equivalently, inserting) them anywhere
    does not change the sequence of accepted rules -/
theorem scanAccepted_filter (rx : RuleExt) (id : Int) (lines : List Bytes) (keep : Bytes → Bool)
    (h : ∀ l ∈ lines, keep l = false → acceptedOf rx id l = none) :
    scanAccepted rx id (lines.filter keep) = scanAccepted rx id lines := by
  induction lines with
  | nil => rfl
  | cons x xs ih =>
    have ih' := ih (fun l hl => h l (List.mem_cons_of_mem _ hl))
    unfold scanAccepted at ih' ⊢
    cases hk : keep x with
    | true => simp [hk, List.filterMap_cons, ih']
    | false =>
      have hx := h x (List.mem_cons_self) hk
      simp [hk, hx, ih']

/-- inserting one inert line anywhere -/
theorem scanAccepted_insert (rx : RuleExt) (id : Int) (a b : List Bytes) (n : Bytes)
    (h : acceptedOf rx id n = none) : scanAccepted rx id (a ++ n :: b) = scanAccepted rx id (a ++ b) := by
  simp [scanAccepted, List.filterMap_append, h]

set_option linter.unusedVariables false in
/-- NewRule reads the line only through TrimSpace (the idempotence hypothesis is not needed) -/
theorem newRule_congr_trim (rx : RuleExt) (htrim : ∀ l, rx.trim (rx.trim l) = rx.trim l) {a b : Bytes} (id : Int)
    (h : rx.trim a = rx.trim b) : newRule rx a id = newRule rx b id := by
  unfold newRule
  simp only [h]

/-- CRLF line endings: if TrimSpace ignores a trailing CR, every line gives the same rule -/
theorem scanAccepted_crlf (rx : RuleExt) (id : Int) (lines : List Bytes)
    (hcr : ∀ l, rx.trim (l ++ [13]) = rx.trim l) :
    scanAccepted rx id (lines.map (· ++ [13])) = scanAccepted rx id lines := by
  have hnr : ∀ l, newRule rx (l ++ [13]) id = newRule rx l id := by
    intro l; unfold newRule; simp only [hcr]
  have hacc : ∀ l, acceptedOf rx id (l ++ [13]) = acceptedOf rx id l := by
    intro l; unfold acceptedOf; rw [hnr]
  unfold scanAccepted
  rw [List.filterMap_map]
  congr 1
  funext l
  exact hacc l

/-! ### the network-rule parser keeps text / list id and sorts tags and client hosts -/

theorem foldlM_inv {α β} (P : β → Prop) (f : β → α → PE β)
    (hf : ∀ b a b', P b → f b a = .ok b' → P b') :
    ∀ (l : List α) (b b' : β), P b → l.foldlM f b = .ok b' → P b' := by
  intro l
  induction l with
  | nil =>
    intro b b' hb h
    simp [List.foldlM, pure, Except.pure] at h
    exact h ▸ hb
  | cons a l ih =>
    intro b b' hb h
    simp only [List.foldlM, bind, Except.bind] at h
    cases hx : f b a with
    | error e => simp [hx] at h
    | ok b1 =>
      simp only [hx] at h
      exact ih b1 b' (hf b a b1 hb hx) h

/-- The invariant of the option loop. -/
structure PInv (t : Bytes) (id : Int) (r : NetRule) : Prop where
  text : r.text = t
  listID : r.listID = id
  wf : r.WellFormed

theorem setOptionEnabled_inv {t id} {r r' : NetRule} {opt : Nat} {en : Bool}
    (hr : PInv t id r) (h : setOptionEnabled r opt en = .ok r') : PInv t id r' := by
  obtain ⟨h1, h2, ⟨w1, w2, w3, w4⟩⟩ := hr
  unfold setOptionEnabled at h
  split at h
  · cases h
  · split at h
    · cases h
    · split at h <;> (cases h; exact ⟨h1, h2, ⟨w1, w2, w3, w4⟩⟩)

theorem setIgnoringError_inv {t id} {r : NetRule} {opt : Nat}
    (hr : PInv t id r) : PInv t id (setIgnoringError r opt) := by
  unfold setIgnoringError
  split
  · next r' hx => exact setOptionEnabled_inv hr hx
  · exact hr

theorem setRequestType_inv {t id} {r : NetRule} {ty : Nat} {p : Bool}
    (hr : PInv t id r) : PInv t id (setRequestType r ty p) := by
  obtain ⟨h1, h2, ⟨w1, w2, w3, w4⟩⟩ := hr
  unfold setRequestType
  split <;> exact ⟨h1, h2, ⟨w1, w2, w3, w4⟩⟩

theorem loadCTags_sorted {v : Bytes} {p rs : List Bytes} (h : loadCTags v = .ok (p, rs)) :
    SortedB p ∧ SortedB rs := by
  unfold loadCTags at h
  split at h
  · cases h
  · simp only [bind, Except.bind, pure, Except.pure] at h
    split at h
    · cases h
    · next x hx =>
      obtain ⟨a, b⟩ := x
      simp only [Except.ok.injEq, Prod.mk.injEq] at h
      obtain ⟨rfl, rfl⟩ := h
      exact ⟨sortB_sorted _, sortB_sorted _⟩

theorem finalize_sorted (c : Option Clients) : ∀ c', Clients.finalize c = some c' → SortedB c'.hosts := by
  intro c' h
  cases c with
  | none => simp [Clients.finalize] at h
  | some c0 =>
    simp only [Clients.finalize, Option.some.injEq] at h
    subst h
    exact sortB_sorted _

theorem loadClients_sorted {ext : Ext} {v : Bytes} {p rs : Option Clients}
    (h : loadClients ext v = .ok (p, rs)) :
    (∀ c, p = some c → SortedB c.hosts) ∧ (∀ c, rs = some c → SortedB c.hosts) := by
  unfold loadClients at h
  split at h
  · cases h
  · simp only [bind, Except.bind, pure, Except.pure] at h
    split at h
    · cases h
    · split at h
      · cases h
      · next x hx =>
        obtain ⟨a, b⟩ := x
        simp only [Except.ok.injEq, Prod.mk.injEq] at h
        obtain ⟨rfl, rfl⟩ := h
        exact ⟨finalize_sorted _, finalize_sorted _⟩

theorem ite_ok_elim {α} {c : Prop} [Decidable c] {a b : PE α} {v : α} {P : Prop}
    (h : (if c then a else b) = .ok v) (h1 : a = .ok v → P) (h2 : b = .ok v → P) : P := by
  split at h
  · exact h1 h
  · exact h2 h

theorem bind_ok_elim {α β} {x : PE α} {f : α → PE β} {v : β} (h : (x >>= f) = .ok v) :
    ∃ a, x = .ok a ∧ f a = .ok v := by
  cases x with
  | error e => cases h
  | ok a => exact ⟨a, rfl, h⟩

theorem pure_ok_elim {α} {a v : α} (h : (pure a : PE α) = .ok v) : a = v := by
  cases h; rfl

theorem loadOption_inv {px : ParseExt} {t id} {r r' : NetRule} {name value : Bytes}
    (hr : PInv t id r) (h : loadOption px r name value = .ok r') : PInv t id r' := by
  have hr0 := hr
  obtain ⟨h1, h2, ⟨w1, w2, w3, w4⟩⟩ := hr0
  unfold loadOption at h
  iterate 6 (refine ite_ok_elim h (setOptionEnabled_inv hr) ?_; clear h; intro h)
  -- dnstype
  refine ite_ok_elim h ?_ ?_ <;> clear h <;> intro h
  · obtain ⟨⟨p, rs⟩, hx, h⟩ := bind_ok_elim h
    cases pure_ok_elim h
    exact ⟨h1, h2, ⟨w1, w2, w3, w4⟩⟩
  -- dnsrewrite
  refine ite_ok_elim h ?_ ?_ <;> clear h <;> intro h
  · split at h
    · cases pure_ok_elim h
      exact ⟨h1, h2, ⟨w1, w2, w3, w4⟩⟩
    · cases h
  -- domain
  refine ite_ok_elim h ?_ ?_ <;> clear h <;> intro h
  · obtain ⟨⟨p, rs⟩, hx, h⟩ := bind_ok_elim h
    cases pure_ok_elim h
    exact ⟨h1, h2, ⟨w1, w2, w3, w4⟩⟩
  -- denyallow
  refine ite_ok_elim h ?_ ?_ <;> clear h <;> intro h
  · obtain ⟨⟨p, rs⟩, hx, h⟩ := bind_ok_elim h
    refine ite_ok_elim h ?_ ?_ <;> clear h <;> intro h
    · cases h
    · cases pure_ok_elim h
      exact ⟨h1, h2, ⟨w1, w2, w3, w4⟩⟩
  -- ctag
  refine ite_ok_elim h ?_ ?_ <;> clear h <;> intro h
  · obtain ⟨⟨p, rs⟩, hx, h⟩ := bind_ok_elim h
    cases pure_ok_elim h
    have hs := loadCTags_sorted hx
    exact ⟨h1, h2, ⟨hs.1, hs.2, w3, w4⟩⟩
  -- client
  refine ite_ok_elim h ?_ ?_ <;> clear h <;> intro h
  · obtain ⟨⟨p, rs⟩, hx, h⟩ := bind_ok_elim h
    cases pure_ok_elim h
    have hs := loadClients_sorted hx
    exact ⟨h1, h2, ⟨w1, w2, hs.1, hs.2⟩⟩
  iterate 7 (refine ite_ok_elim h (setOptionEnabled_inv hr) ?_; clear h; intro h)
  -- ~extension
  refine ite_ok_elim h ?_ ?_ <;> clear h <;> intro h
  · cases pure_ok_elim h
    exact ⟨h1, h2, ⟨w1, w2, w3, w4⟩⟩
  -- document
  refine ite_ok_elim h ?_ ?_ <;> clear h <;> intro h
  · obtain ⟨r1, hx, h⟩ := bind_ok_elim h
    cases pure_ok_elim h
    exact setIgnoringError_inv (setIgnoringError_inv (setIgnoringError_inv (setIgnoringError_inv
      (setOptionEnabled_inv hr hx))))
  iterate 4 (refine ite_ok_elim h (setOptionEnabled_inv hr) ?_; clear h; intro h)
  -- content types
  split at h
  · cases pure_ok_elim h
    exact setRequestType_inv hr
  · refine ite_ok_elim h ?_ ?_ <;> clear h <;> intro h
    · split at h
      · cases pure_ok_elim h
        exact setRequestType_inv hr
      · cases h
    · cases h

theorem loadOptionsStep_inv {px : ParseExt} {t id} {r r' : NetRule} {o : Bytes}
    (hr : PInv t id r) (h : loadOptionsStep px r o = .ok r') : PInv t id r' := by
  unfold loadOptionsStep at h
  split at h
  · refine ite_ok_elim h ?_ ?_ <;> clear h <;> intro h
    · obtain ⟨name, _, h⟩ := bind_ok_elim h
      obtain ⟨value, _, h⟩ := bind_ok_elim h
      exact loadOption_inv hr h
    · exact loadOption_inv hr h
  · exact loadOption_inv hr h

theorem loadOptions_inv {px : ParseExt} {t id} {r r' : NetRule} {opts : Bytes}
    (hr : PInv t id r) (h : loadOptions px r opts = .ok r') : PInv t id r' := by
  unfold loadOptions at h
  refine ite_ok_elim h ?_ ?_ <;> clear h <;> intro h
  · cases pure_ok_elim h
    exact hr
  · obtain ⟨parts, _, h⟩ := bind_ok_elim h
    obtain ⟨r1, hf, h⟩ := bind_ok_elim h
    have hr1 : PInv t id r1 :=
      foldlM_inv (PInv t id) (loadOptionsStep px) (fun _ _ _ hb hs => loadOptionsStep_inv hb hs) parts r r1 hr hf
    refine ite_ok_elim h ?_ ?_ <;> clear h <;> intro h
    · cases pure_ok_elim h
      obtain ⟨h1, h2, ⟨w1, w2, w3, w4⟩⟩ := hr1
      exact ⟨h1, h2, ⟨w1, w2, w3, w4⟩⟩
    · cases pure_ok_elim h
      exact hr1

theorem parseNetRule_inv {px : ParseExt} {t : Bytes} {id : Int} {r : NetRule}
    (h : parseNetRule px t id = .ok r) : PInv t id r := by
  unfold parseNetRule at h
  obtain ⟨⟨pattern, options, whitelist⟩, _, h⟩ := bind_ok_elim h
  obtain ⟨r1, hl, h⟩ := bind_ok_elim h
  have hr1 : PInv t id r1 := by
    refine loadOptions_inv ?_ hl
    exact ⟨rfl, rfl, ⟨List.Pairwise.nil, List.Pairwise.nil, (fun _ hc => by cases hc),
      (fun _ hc => by cases hc)⟩⟩
  extract_lets jp at h
  have hjp : ∀ r2, PInv t id r2 → jp r2 = .ok r → PInv t id r := by
    intro r2 hr2 h
    simp only [jp] at h
    refine ite_ok_elim h ?_ ?_ <;> clear h <;> intro h
    · cases h
    · obtain ⟨sc, _, h⟩ := bind_ok_elim h
      refine ite_ok_elim h ?_ ?_ <;> clear h <;> intro h
      · cases pure_ok_elim h
        obtain ⟨h1, h2, ⟨w1, w2, w3, w4⟩⟩ := hr2
        exact ⟨h1, h2, ⟨w1, w2, w3, w4⟩⟩
      · cases pure_ok_elim h
        exact hr2
  refine ite_ok_elim h ?_ ?_ <;> clear h <;> intro h
  · obtain ⟨p, _, h⟩ := bind_ok_elim h
    obtain ⟨r2, hp, h⟩ := bind_ok_elim h
    cases pure_ok_elim hp
    refine hjp _ ?_ h
    obtain ⟨h1, h2, ⟨w1, w2, w3, w4⟩⟩ := hr1
    exact ⟨h1, h2, ⟨w1, w2, w3, w4⟩⟩
  · obtain ⟨r2, hp, h⟩ := bind_ok_elim h
    cases pure_ok_elim hp
    exact hjp _ hr1 h

/-- a parsed network rule keeps the text and the list id it was given -/
theorem parseNetRule_text {px : ParseExt} {t : Bytes} {id : Int} {r : NetRule}
    (h : parseNetRule px t id = .ok r) : r.text = t ∧ r.listID = id :=
  ⟨(parseNetRule_inv h).text, (parseNetRule_inv h).listID⟩

/-- the parser leaves client tags and client host names sorted -/
theorem parseNetRule_wellFormed {px : ParseExt} {t : Bytes} {id : Int} {r : NetRule}
    (h : parseNetRule px t id = .ok r) : r.WellFormed :=
  (parseNetRule_inv h).wf

/-! ### cosmetic rules and `NewRule` -/

theorem newCosmeticRule_text {trim : Bytes → Bytes} {t : Bytes} {id : Int} {c : CosRule}
    (h : newCosmeticRule trim t id = .ok c) : c.text = t ∧ c.listID = id := by
  unfold newCosmeticRule at h
  obtain ⟨mk, _, h⟩ := bind_ok_elim h
  split at h
  · cases h
  · extract_lets jp at h
    have hjp : ∀ x, jp x = .ok c → c.text = t ∧ c.listID = id := by
      intro x h
      obtain ⟨permitted, restricted⟩ := x
      simp only [jp] at h
      obtain ⟨rest, _, h⟩ := bind_ok_elim h
      refine ite_ok_elim h ?_ ?_ <;> clear h <;> intro h
      · cases h
      · refine ite_ok_elim h ?_ ?_ <;> clear h <;> intro h
        · cases pure_ok_elim h
          exact ⟨rfl, rfl⟩
        · refine ite_ok_elim h ?_ ?_ <;> clear h <;> intro h
          · refine ite_ok_elim h ?_ ?_ <;> clear h <;> intro h
            · cases h
            · cases pure_ok_elim h
              exact ⟨rfl, rfl⟩
          · cases h
    refine ite_ok_elim h ?_ ?_ <;> clear h <;> intro h
    · obtain ⟨domains, _, h⟩ := bind_ok_elim h
      split at h
      · obtain ⟨x, _, h⟩ := bind_ok_elim h
        exact hjp x h
      · obtain ⟨x, hx, h⟩ := bind_ok_elim h
        cases hx
      · obtain ⟨x, hx, h⟩ := bind_ok_elim h
        cases hx
    · obtain ⟨x, _, h⟩ := bind_ok_elim h
      exact hjp x h

/-- C12: a line yields a rule whose text is the trimmed line and whose list id is the one given -/
theorem newRule_text {rx : RuleExt} {line : Bytes} {id : Int} {r : Rule}
    (hhost : ∀ t i h, rx.newHostRule t i = some h → h.text = t ∧ h.listID = i)
    (h : newRule rx line id = .ok (some r)) : r.text = rx.trim line ∧ r.listID = id := by
  unfold newRule at h
  refine ite_ok_elim h ?_ ?_ <;> clear h <;> intro h
  · cases pure_ok_elim h
  · obtain ⟨isc, _, h⟩ := bind_ok_elim h
    refine ite_ok_elim h ?_ ?_ <;> clear h <;> intro h
    · cases pure_ok_elim h
    · obtain ⟨mk, _, h⟩ := bind_ok_elim h
      split at h
      · obtain ⟨c, hc, h⟩ := bind_ok_elim h
        cases pure_ok_elim h
        exact newCosmeticRule_text hc
      · split at h
        · next hr hh =>
          cases pure_ok_elim h
          exact hhost _ _ _ hh
        · obtain ⟨n, hn, h⟩ := bind_ok_elim h
          cases pure_ok_elim h
          exact parseNetRule_text hn

end UF.E

import UF.Proofs.ProgPersist
/-
  C19, "rules already materialised continue to be served", CONCURRENT form: a rule that is in the cache at some
  point of a schedule is returned by every thread that had not started at that point (and, more generally, by
  every thread that still has the index ahead of it: `Track`), whatever the other threads do and whatever
  `close` events follow.  `Track` is thread-local and `step_track` relies on the shared state only through
  facts that every action of every thread preserves (`SInv`, the presence of the key), so the sequential proof
  of `runQuery_cached` lifts to configurations.
-/
namespace UF.Prog
variable {R Re : Type}

/-- The first action puts every item of the work list ahead of the thread. -/
theorem step_track_start {env : Env R Re} {s : State R Re} {t : Thread R} {src : Src} {idx : Idx} {r : R}
    (hst : t.pc = .start) (hq : t.q.trivial = false) (hitem : Item.st src idx ∈ env.items1 (env.reqOf t.q)) :
    Track src idx r (step env s t).2 := by
  have hreq := (step_tot_start env s t hst hq).2
  rcases t with ⟨q', pc, req, todo, acc, stage⟩
  simp only at hst; subst hst
  cases q' with
  | dns d =>
    have hd : d.hostname.isEmpty = false := by simpa [Query.trivial] using hq
    simp only [step, stepG, hd, Bool.false_eq_true, if_false] at hreq ⊢
    simp only [advance_req] at hreq
    apply track_advance; right
    simp only
    rw [hreq]; exact hitem
  | web w => simp only [step, stepG]; apply track_advance; right; exact hitem

/-- One action of the thread itself, from any point of its run. -/
theorem step_track_any {env : Env R Re} {s : State R Re} {t : Thread R} {src : Src} {idx : Idx} {r : R}
    (hs : SInv env s) (hg : Good env s t) (hsd : Sound env t) (hl : (cacheLookup s.cache idx).isSome)
    (htr : env.truth idx = some r) (hw : env.wants src r = true) (hq : t.q.trivial = false)
    (hitem : Item.st src idx ∈ env.items1 (env.reqOf t.q)) (hv : env.verdict src r (env.reqOf t.q) = true)
    (hk : t.pc ≠ .start → Track src idx r t) : Track src idx r (step env s t).2 := by
  by_cases hst : t.pc = .start
  · exact step_track_start hst hq hitem
  · have hreq := hg.1.req_eq hst hq
    exact step_track hs hg hsd hl htr hw (by rw [hreq]; exact hv) hst (hk hst)

/-- What is carried along a schedule for thread number `i`. -/
def TrackInv (env : Env R Re) (i : Nat) (q : Query) (src : Src) (idx : Idx) (r : R) (c : Config R Re) : Prop :=
  CInv (Sound env) env c ∧ (cacheLookup c.state.cache idx).isSome ∧
    ∀ t, c.threads[i]? = some t → t.q = q ∧ (t.pc ≠ .start → Track src idx r t)

theorem exec_trackInv {env : Env R Re} {i : Nat} {q : Query} {src : Src} {idx : Idx} {r : R} {c : Config R Re}
    (htr : env.truth idx = some r) (hw : env.wants src r = true) (hq : q.trivial = false)
    (hitem : Item.st src idx ∈ env.items1 (env.reqOf q)) (hv : env.verdict src r (env.reqOf q) = true)
    (e : Ev) (h : TrackInv env i q src idx r c) : TrackInv env i q src idx r (c.exec env e) := by
  cases e with
  | close l => exact h
  | run tid =>
    refine ⟨exec_run_cinv tid (fun t hg hsd => step_sound h.1.1 hg hsd) h.1, ?_, ?_⟩
    · have : ∃ x, cacheLookup c.state.cache idx = some x := Option.isSome_iff_exists.1 h.2.1
      obtain ⟨x, hx⟩ := this
      rw [exec_lookup env c (.run tid) hx]; rfl
    · intro t ht
      simp only [Config.exec, Config.execG] at ht
      cases htid : c.threads[tid]? with
      | none => rw [htid] at ht; exact h.2.2 t ht
      | some t0 =>
        rw [htid] at ht
        simp only at ht
        by_cases hi : tid = i
        · subst hi
          have hlen : tid < c.threads.length := by
            rcases Nat.lt_or_ge tid c.threads.length with h' | h'
            · exact h'
            · rw [List.getElem?_eq_none h'] at htid; cases htid
          rw [List.getElem?_set_self hlen] at ht
          cases ht
          obtain ⟨hq0, hk0⟩ := h.2.2 t0 htid
          have hm : t0 ∈ c.threads := List.mem_of_getElem? htid
          have hg := h.1.2 t0 hm
          refine ⟨by rw [step_q]; exact hq0, fun _ => ?_⟩
          exact step_track_any h.1.1 hg.1 hg.2 h.2.1 htr hw (by rw [hq0]; exact hq) (by rw [hq0]; exact hitem)
            (by rw [hq0]; exact hv) hk0
        · rw [List.getElem?_set_ne hi] at ht
          exact h.2.2 t ht

theorem run_trackInv {env : Env R Re} {i : Nat} {q : Query} {src : Src} {idx : Idx} {r : R}
    (htr : env.truth idx = some r) (hw : env.wants src r = true) (hq : q.trivial = false)
    (hitem : Item.st src idx ∈ env.items1 (env.reqOf q)) (hv : env.verdict src r (env.reqOf q) = true)
    (sched : List Ev) : ∀ (c : Config R Re), TrackInv env i q src idx r c → TrackInv env i q src idx r (c.run env sched) := by
  induction sched with
  | nil => intro c h; exact h
  | cons e rest ih => intro c h; exact ih _ (exec_trackInv htr hw hq hitem hv e h)

/-- CONCURRENT: if the cache holds `r` at `idx` in a configuration whose invariant holds, and thread `i` (running
    query `q`) has not started yet -- or still has the index ahead of it --, then after ANY further schedule of
    actions of all threads and `close` events, thread `i`, once finished, has `r` in its answer, provided `idx`
    is a network-table candidate of `q` and `r` is of the wanted kind and matches. -/
theorem run_cached {env : Env R Re} {c : Config R Re} (sched : List Ev) (i : Nat) (q : Query) {b : Bool} {idx : Idx}
    {r : R} (hc : CInv (Sound env) env c) (hl : cacheLookup c.state.cache idx = some r)
    (hth : ∀ t, c.threads[i]? = some t → t.q = q ∧ (t.pc ≠ .start → Track (if b then .sc else .dom) idx r t))
    (hq : q.trivial = false) (hcand : (b, idx) ∈ env.cands (env.reqOf q))
    (hw : env.wants (if b then .sc else .dom) r = true) (hm : env.mtch r (env.reqOf q) = true) :
    ∀ t, (c.run env sched).threads[i]? = some t → t.pc = .done → r ∈ t.answer.1 := by
  intro t ht hd
  have htr := hc.1.1 _ _ (cacheLookup_mem hl)
  generalize hsrc : (if b then Src.sc else Src.dom) = src at hw hth
  have hnh : (src == Src.host) = false := by subst hsrc; cases b <;> rfl
  have hitem : Item.st src idx ∈ env.items1 (env.reqOf q) := by
    subst hsrc
    simp only [Env.items1, List.mem_append, List.mem_map]
    left; exact ⟨(b, idx), hcand, rfl⟩
  have inv := run_trackInv (i := i) htr hw hq hitem (by rw [verdict_not_host env hnh]; exact hm) sched c
    ⟨hc, by rw [hl]; rfl, hth⟩
  have hk := (inv.2.2 t ht).2 (by rw [hd]; simp)
  have hm' : t ∈ (c.run env sched).threads := List.mem_of_getElem? ht
  have htodo := (inv.1.2 t hm').1.1.end_todo (Or.inr (Or.inr hd))
  rcases hk with hk | hk | hk | hk | hk | hk
  · exact mem_nets.2 ⟨_, by subst hsrc; cases b <;> rfl, hk⟩
  · rw [htodo] at hk; cases hk
  all_goals (rw [hd] at hk; cases hk)

/-- The invariant of configurations survives every schedule (with `close` events). -/
theorem run_cinv_sound' {env : Env R Re} (s : State R Re) (qs : List Query) (sched : List Ev) (hs : SInv env s) :
    CInv (Sound env) env (Config.run env ⟨s, qs.map Thread.init⟩ sched) :=
  run_cinv_sound sched _ (cinv_init (Sound env) env s qs hs (sound_init env))

/-- Threads keep their place and their query. -/
theorem exec_thread_q (env : Env R Re) (c : Config R Re) (e : Ev) (i : Nat) (q : Query)
    (h : ∀ t, c.threads[i]? = some t → t.q = q) : ∀ t, (c.exec env e).threads[i]? = some t → t.q = q := by
  cases e with
  | close l => exact h
  | run tid =>
    intro t ht
    simp only [Config.exec, Config.execG] at ht
    cases htid : c.threads[tid]? with
    | none => rw [htid] at ht; exact h t ht
    | some t0 =>
      rw [htid] at ht
      simp only at ht
      by_cases hi : tid = i
      · subst hi
        have hlen : tid < c.threads.length := by
          rcases Nat.lt_or_ge tid c.threads.length with h' | h'
          · exact h'
          · rw [List.getElem?_eq_none h'] at htid; cases htid
        rw [List.getElem?_set_self hlen] at ht
        cases ht
        rw [step_q]; exact h t0 htid
      · rw [List.getElem?_set_ne hi] at ht
        exact h t ht

theorem run_thread_q (env : Env R Re) (sched : List Ev) (i : Nat) (q : Query) : ∀ (c : Config R Re),
    (∀ t, c.threads[i]? = some t → t.q = q) → ∀ t, (c.run env sched).threads[i]? = some t → t.q = q := by
  induction sched with
  | nil => intro c h; exact h
  | cons e rest ih => intro c h; exact ih _ (exec_thread_q env c e i q h)

end UF.Prog

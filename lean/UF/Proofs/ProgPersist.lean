import UF.Proofs.ProgCached
/-
  C19, "rules retrieved before the fault are still returned" (REVIEW2 F12): the cache ENTRY persists.

  `ProgCached.step_lookup_isSome` only says that a key stays present.  Here: the object stored under a key is
  never replaced (`cachePut` keeps an existing object, D15) and never dropped -- across every action of every
  thread (`step_lookup`), hence across queries (`runQuery_lookup`), across whole histories with `close` events
  anywhere (`runHistoryT_lookup`) and across every schedule of concurrent threads and `close` events
  (`run_lookup`).  `history_cached` / `history_cached_host` connect this with `runQuery_cached(_host)`: a
  rule found in the cache at ANY point of a history is returned by EVERY later query for which its index is a
  candidate and which it matches.
-/
namespace UF.Prog
variable {R Re : Type}

/-- `cacheLookup` after `cacheInsert`. -/
theorem cacheLookup_cacheInsert (c : List (Idx × R)) (i j : Idx) (r : R) :
    cacheLookup (cacheInsert c i r) j = if j = i then some r else cacheLookup c j := by
  by_cases h : j = i
  · subst h; simp [cacheLookup, cacheInsert]
  · simp only [h, if_false]
    unfold cacheLookup cacheInsert
    rw [List.find?_cons_of_neg (by simpa using fun h' => h h'.symm)]
    have : (List.find? (fun e => e.1 == j) (List.filter (fun e => e.1 != i) c)) =
        List.find? (fun e => e.1 == j) c := by
      induction c with
      | nil => rfl
      | cons a t ih =>
        by_cases ha : a.1 = i
        · have hne : (a.1 == j) = false := by
            simp only [beq_eq_false_iff_ne, ne_eq]; exact fun h' => h (by rw [← h', ha])
          have hf : (a.1 != i) = false := by simp [ha]
          rw [List.filter_cons, hf, List.find?_cons, hne]; simpa using ih
        · have hf : (a.1 != i) = true := by simp [ha]
          rw [List.filter_cons, hf]; simp only [if_true, List.find?_cons, ih]
    rw [this]

/-- A cached object is never replaced and never dropped, by any action of any thread. -/
theorem step_lookup (env : Env R Re) (s : State R Re) (t : Thread R) {idx : Idx} {r : R}
    (h : cacheLookup s.cache idx = some r) : cacheLookup (step env s t).1.cache idx = some r := by
  rcases step_cache env s t with h1 | ⟨i, r', hnone, h1⟩
  · rw [h1]; exact h
  · rw [h1, cacheLookup_cacheInsert]
    split
    · next hi => subst hi; rw [hnone] at h; cases h
    · exact h

/-- … nor by a whole query run alone. -/
theorem runQuery_lookup (env : Env R Re) (s : State R Re) (q : Query) {idx : Idx} {r : R}
    (h : cacheLookup s.cache idx = some r) : cacheLookup (runQuery env s q).1.cache idx = some r :=
  runQuery_inv env (fun s' _ => cacheLookup s'.cache idx = some r) (fun s' t h' => step_lookup env s' t h') s q h

theorem runHistoryT_append (env : Env R Re) (h1 h2 : List HEv) : ∀ (s : State R Re),
    runHistoryT env s (h1 ++ h2) =
      ((runHistoryT env (runHistoryT env s h1).1 h2).1,
        (runHistoryT env s h1).2 ++ (runHistoryT env (runHistoryT env s h1).1 h2).2) := by
  induction h1 with
  | nil => intro s; rfl
  | cons e rest ih =>
    intro s
    cases e with
    | query q => simp only [List.cons_append, runHistoryT, ih, List.cons_append]
    | close l => simp only [List.cons_append, runHistoryT, ih]

/-- … nor by any history of queries and `close` events. -/
theorem runHistoryT_lookup (env : Env R Re) (h : List HEv) : ∀ (s : State R Re) {idx : Idx} {r : R},
    cacheLookup s.cache idx = some r → cacheLookup (runHistoryT env s h).1.cache idx = some r := by
  induction h with
  | nil => intro s idx r hl; exact hl
  | cons e rest ih =>
    intro s idx r hl
    cases e with
    | query q => simp only [runHistoryT]; exact ih _ (runQuery_lookup env s q hl)
    | close l => simp only [runHistoryT]; exact ih _ hl

/-- The shared invariant survives any history (queries and `close` events). -/
theorem runHistoryT_sinv (env : Env R Re) (h : List HEv) : ∀ (s : State R Re), SInv env s →
    SInv env (runHistoryT env s h).1 := by
  induction h with
  | nil => intro s hs; exact hs
  | cons e rest ih =>
    intro s hs
    cases e with
    | query q => simp only [runHistoryT]; exact ih _ (runQuery_good q hs).1
    | close l => simp only [runHistoryT]; exact ih { s with closed := l :: s.closed } hs

/-- Every thread of a history is the solo run of its query from the state the history before it left
    (the form in which statements about single queries are lifted to histories). -/
theorem runHistoryT_threads (env : Env R Re) (P : State R Re → Thread R → Prop)
    (hq : ∀ s q, SInv env s → P s (runQuery env s q).2) (h : List HEv) :
    ∀ (s : State R Re), SInv env s → ∀ t ∈ (runHistoryT env s h).2,
      ∃ h1 q h2, h = h1 ++ HEv.query q :: h2 ∧ t = (runQuery env (runHistoryT env s h1).1 q).2 ∧
        P (runHistoryT env s h1).1 t := by
  induction h with
  | nil => intro s _ t ht; cases ht
  | cons e rest ih =>
    intro s hs t ht
    cases e with
    | query q =>
      simp only [runHistoryT, List.mem_cons] at ht
      rcases ht with rfl | ht
      · exact ⟨[], q, rest, rfl, rfl, hq s q hs⟩
      · obtain ⟨h1, q', h2, e1, e2, e3⟩ := ih _ (runQuery_good q hs).1 t ht
        refine ⟨HEv.query q :: h1, q', h2, by rw [e1]; rfl, ?_, ?_⟩
        · simpa only [runHistoryT] using e2
        · simpa only [runHistoryT] using e3
    | close l =>
      simp only [runHistoryT] at ht
      obtain ⟨h1, q', h2, e1, e2, e3⟩ := ih { s with closed := l :: s.closed } hs t ht
      refine ⟨HEv.close l :: h1, q', h2, by rw [e1]; rfl, ?_, ?_⟩
      · simpa only [runHistoryT] using e2
      · simpa only [runHistoryT] using e3

/-- A rule found in the cache at some point of a history is returned by every LATER query of which its index
    is a network-table candidate and which it matches -- whatever `close` events come in between. -/
theorem history_cached {env : Env R Re} (h : List HEv) : ∀ {s : State R Re} {idx : Idx} {r : R}, SInv env s →
    cacheLookup s.cache idx = some r →
    ∀ t ∈ (runHistoryT env s h).2, t.q.trivial = false → ∀ b : Bool,
      (b, idx) ∈ env.cands (env.reqOf t.q) → env.wants (if b then .sc else .dom) r = true →
      env.mtch r (env.reqOf t.q) = true → r ∈ t.answer.1 := by
  induction h with
  | nil => intro s idx r _ _ t ht; cases ht
  | cons e rest ih =>
    intro s idx r hs hl t ht
    cases e with
    | query q =>
      simp only [runHistoryT, List.mem_cons] at ht
      rcases ht with rfl | ht
      · intro hq b hc hw hm
        rw [runQuery_q] at hq hc hm
        exact runQuery_cached q hs hq (cacheLookup_mem hl) hc hw hm
      · exact ih (runQuery_good q hs).1 (runQuery_lookup env s q hl) t ht
    | close l =>
      simp only [runHistoryT] at ht
      exact ih (s := { s with closed := l :: s.closed }) hs hl t ht

/-- The same for the hosts table of the DNS engine (second stage of `MatchRequest`): a cached host rule of the
    bucket is returned by every later DNS query whose (possibly degraded) network rules leave the decision to
    the hosts table. -/
theorem history_cached_host {env : Env R Re} (h : List HEv) : ∀ {s : State R Re} {idx : Idx} {r : R}, SInv env s →
    cacheLookup s.cache idx = some r →
    ∀ t ∈ (runHistoryT env s h).2, ∀ d : DReq, t.q = .dns d → d.hostname.isEmpty = false →
      idx ∈ env.hcands (env.reqOf t.q) → env.wants .host r = true → env.pre r (env.reqOf t.q) = true →
      env.basic t.answer.1 = false → r ∈ t.answer.2 := by
  induction h with
  | nil => intro s idx r _ _ t ht; cases ht
  | cons e rest ih =>
    intro s idx r hs hl t ht
    cases e with
    | query q =>
      simp only [runHistoryT, List.mem_cons] at ht
      rcases ht with rfl | ht
      · intro d hq hd hc hw hm hb
        rw [runQuery_q] at hq
        subst hq
        rw [runQuery_q] at hc hm
        exact runQuery_cached_host d hs hd (cacheLookup_mem hl) hc hw hm hb
      · exact ih (runQuery_good q hs).1 (runQuery_lookup env s q hl) t ht
    | close l =>
      simp only [runHistoryT] at ht
      exact ih (s := { s with closed := l :: s.closed }) hs hl t ht

/-! ### schedules -/

/-- One event of a schedule (an action of some thread, or a `close`) keeps every cache entry. -/
theorem exec_lookup (env : Env R Re) (c : Config R Re) (e : Ev) {idx : Idx} {r : R}
    (h : cacheLookup c.state.cache idx = some r) : cacheLookup (c.exec env e).state.cache idx = some r := by
  cases e with
  | run tid =>
    simp only [Config.exec, Config.execG]
    cases c.threads[tid]? with
    | none => exact h
    | some t => exact step_lookup env c.state t h
  | close l => exact h

/-- A cache entry survives every schedule of concurrent threads and `close` events. -/
theorem run_lookup (env : Env R Re) (sched : List Ev) : ∀ (c : Config R Re) {idx : Idx} {r : R},
    cacheLookup c.state.cache idx = some r → cacheLookup (c.run env sched).state.cache idx = some r := by
  induction sched with
  | nil => intro c idx r h; exact h
  | cons e rest ih => intro c idx r h; exact ih _ (exec_lookup env c e h)

theorem run_append (env : Env R Re) (c : Config R Re) (s1 s2 : List Ev) :
    c.run env (s1 ++ s2) = (c.run env s1).run env s2 := by
  simp [Config.run, List.foldl_append]

end UF.Prog

import UF.Model.RegexParse
import UF.Model.Mask
/-
  Group P3: facts about the model of Go's `factor` quirk (UF/Model/RegexQuirk.lean) that the mask
  theorems need — the expression of a mask pattern contains no source of case-folded literals, so
  `goTree` leaves it alone.
-/
namespace UF.Re

theorem hasTwoCase_mkCat : ∀ l : List Re, (mkCat l).hasTwoCase = l.any hasTwoCase
  | [] => rfl
  | [a] => by simp [mkCat]
  | a :: b :: rest => by
    have ih := hasTwoCase_mkCat (b :: rest)
    simp only [mkCat, hasTwoCase, ih, List.any_cons]

theorem hasCaseAlt_mkCat : ∀ l : List Re, (mkCat l).hasCaseAlt = l.any hasCaseAlt
  | [] => rfl
  | [a] => by simp [mkCat]
  | a :: b :: rest => by
    have ih := hasCaseAlt_mkCat (b :: rest)
    simp only [mkCat, hasCaseAlt, ih, List.any_cons]

theorem hazard_mkCat (l : List Re) : (mkCat l).hazard = l.any hazard := by
  unfold hazard
  rw [hasTwoCase_mkCat, hasCaseAlt_mkCat]
  induction l with
  | nil => rfl
  | cons a rest ih =>
    simp only [List.any_cons, ← ih]
    cases hasTwoCase a <;> cases hasCaseAlt a <;> cases rest.any hasTwoCase <;> cases rest.any hasCaseAlt <;> rfl

theorem goTree_of_not_hazard (p : Bytes) (r : Re) (h : r.hazard = false) : goTree p r = some r := by
  simp [goTree, h]

end UF.Re

namespace UF.Mask
open UF UF.Re UF.MaskSpec

theorem hazard_tokAtom (t : Tok) : (tokAtom t).hazard = false := by
  cases t with
  | lit c => rfl
  | star => rfl
  | sep => decide

theorem hazard_startAtoms (s : Start) : (startAtoms s).any hazard = false := by
  cases s with
  | none => rfl
  | pipe => rfl
  | dbl => decide

theorem hazard_endAtoms (e : Bool) : (endAtoms e).any hazard = false := by
  cases e <;> rfl

/-- The expression of a mask pattern has no class of the two cases of a letter and no alternation of
    single characters: Go's tree of it cannot contain a case-folded literal next to a case-sensitive
    one, and `goTree` is the identity on it. -/
theorem hazard_maskAtoms (p : MaskPat) : (mkCat (maskAtoms p)).hazard = false := by
  rw [hazard_mkCat]
  unfold maskAtoms
  rw [List.any_append, List.any_append, hazard_startAtoms, hazard_endAtoms, List.any_map]
  simp only [Bool.false_or, Bool.or_false]
  rw [List.any_eq_false]
  intro t _
  simp [hazard_tokAtom]

end UF.Mask

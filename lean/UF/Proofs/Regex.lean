import UF.Model.Regex
/-
  The matcher is sound and complete for the declarative semantics:
    `m_iff      : r.m s k = true ↔ ∃ t, Den r s t ∧ k t = true`
    `search_iff : search r u = true ↔ ∃ x y z, u = x ++ y ++ z ∧ Den r ⟨x.reverse, y ++ z⟩ ⟨(x ++ y).reverse, z⟩`
-/
namespace UF
open Re

/-! ### Shape of a `Den` step: it consumes a prefix `x` of the rest and pushes it on `pre`. -/

theorem litStep_shape (fold : Bool) : ∀ (bs : Bytes) (s t : St), litStep fold bs s = some t →
    ∃ x, s.post = x ++ t.post ∧ t.pre = x.reverse ++ s.pre ∧ Bytes.toLower x = Bytes.toLower bs := by
  intro bs
  induction bs with
  | nil =>
    intro s t h
    simp [litStep] at h
    subst h
    exact ⟨[], by simp, by simp, rfl⟩
  | cons c cs ih =>
    intro s t h
    obtain ⟨pre, post⟩ := s
    cases post with
    | nil => simp [litStep] at h
    | cons b post =>
      simp only [litStep] at h
      split at h
      · rename_i hb
        obtain ⟨x, h1, h2, h3⟩ := ih _ _ h
        refine ⟨b :: x, ?_, ?_, ?_⟩
        · simp at h1 ⊢; exact h1
        · simp at h2 ⊢; exact h2
        · have : Bytes.lowerByte b = Bytes.lowerByte c := by
            simp only [byteEq, Bool.or_eq_true, Bool.and_eq_true, beq_iff_eq] at hb
            rcases hb with hb | ⟨_, hb⟩
            · rw [hb]
            · exact hb
          simp only [Bytes.toLower, List.map_cons] at h3 ⊢
          rw [this, h3]
      · simp at h

theorem Den.shape {r : Re} {s t : St} (h : Den r s t) :
    ∃ x, s.post = x ++ t.post ∧ t.pre = x.reverse ++ s.pre := by
  induction h with
  | empty | bol _ | eol _ | wordB _ | nwordB _ | star0 | quest0 | repB0 => exact ⟨[], by simp, by simp⟩
  | lit h =>
    obtain ⟨x, h1, h2, _⟩ := litStep_shape _ _ _ _ h
    exact ⟨x, h1, h2⟩
  | @any pre b post _ | @anyNL pre b post | @cls _ _ _ pre b post _ => exact ⟨[b], by simp, by simp⟩
  | cat _ _ ih1 ih2 | starS _ _ ih1 ih2 | plus _ _ ih1 ih2 | repUS _ _ ih1 ih2 | repBO _ _ ih1 ih2
  | repBS _ _ ih1 ih2 =>
    obtain ⟨x, h1, h2⟩ := ih1
    obtain ⟨y, h3, h4⟩ := ih2
    exact ⟨x ++ y, by simp [h1, h3], by simp [h2, h4]⟩
  | altL _ ih | altR _ ih | quest1 _ ih | repU0 _ ih | grp _ ih => exact ih

/-- A step never lengthens the rest. -/
theorem Den.len {r : Re} {s t : St} (h : Den r s t) : t.post.length ≤ s.post.length := by
  obtain ⟨x, h1, _⟩ := h.shape
  simp [h1]

/-- A step without progress returns the same state. -/
theorem Den.noprog {r : Re} {s t : St} (h : Den r s t) (hl : ¬ t.post.length < s.post.length) : t = s := by
  obtain ⟨x, h1, h2⟩ := h.shape
  have hx : x = [] := by
    have : s.post.length = x.length + t.post.length := by rw [h1]; simp
    have : x.length = 0 := by omega
    exact List.eq_nil_of_length_eq_zero this
  subst hx
  obtain ⟨p1, q1⟩ := s
  obtain ⟨p2, q2⟩ := t
  simp at h1 h2
  simp [h1, h2]

/-! ### The loops, for a matcher `f` that is correct for `a`. -/

section loops
variable {a : Re} {f : St → (St → Bool) → Bool}

theorem starLoop_sound (hf : ∀ s k, f s k = true → ∃ t, Den a s t ∧ k t = true) :
    ∀ n s k, starLoop f n s k = true → ∃ t, Den (.star a) s t ∧ k t = true := by
  intro n
  induction n with
  | zero => intro s k h; exact ⟨s, .star0, h⟩
  | succ n ih =>
    intro s k h
    simp only [starLoop, Bool.or_eq_true] at h
    rcases h with h | h
    · exact ⟨s, .star0, h⟩
    · obtain ⟨t, h1, h2⟩ := hf _ _ h
      simp only [Bool.and_eq_true] at h2
      obtain ⟨u, h3, h4⟩ := ih _ _ h2.2
      exact ⟨u, .starS h1 h3, h4⟩

theorem starLoop_complete (hf : ∀ s k t, Den a s t → k t = true → f s k = true)
    {s u : St} (h : Den (.star a) s u) :
    ∀ n k, s.post.length ≤ n → k u = true → starLoop f n s k = true := by
  generalize hr : Re.star a = r at h
  induction h with
  | star0 =>
    intro n k _ hk
    cases n <;> simp [starLoop, hk]
  | @starS a' s t u h1 h2 _ ih2 =>
    cases hr
    intro n k hn hk
    by_cases hp : t.post.length < s.post.length
    · cases n with
      | zero => omega
      | succ n =>
        simp only [starLoop, Bool.or_eq_true]
        right
        apply hf _ _ _ h1
        simp only [Bool.and_eq_true, decide_eq_true_eq]
        exact ⟨hp, ih2 rfl n k (by omega) hk⟩
    · have : t = s := h1.noprog hp
      subst this
      exact ih2 rfl n k hn hk
  | _ => cases hr

theorem iterN_sound (hf : ∀ s k, f s k = true → ∃ t, Den a s t ∧ k t = true) :
    ∀ m s k, iterN f m s (fun t => starLoop f t.post.length t k) = true →
      ∃ t, Den (.rep a m none) s t ∧ k t = true := by
  intro m
  induction m with
  | zero =>
    intro s k h
    simp only [iterN] at h
    obtain ⟨t, h1, h2⟩ := starLoop_sound hf _ _ _ h
    exact ⟨t, .repU0 h1, h2⟩
  | succ m ih =>
    intro s k h
    simp only [iterN] at h
    obtain ⟨t, h1, h2⟩ := hf _ _ h
    obtain ⟨u, h3, h4⟩ := ih _ _ h2
    exact ⟨u, .repUS h1 h3, h4⟩

theorem iterN_complete (hf : ∀ s k t, Den a s t → k t = true → f s k = true) :
    ∀ m s u k, Den (.rep a m none) s u → k u = true →
      iterN f m s (fun t => starLoop f t.post.length t k) = true := by
  intro m
  induction m with
  | zero =>
    intro s u k h hk
    cases h with
    | repU0 h => exact starLoop_complete hf h _ _ (Nat.le_refl _) hk
  | succ m ih =>
    intro s u k h hk
    cases h with
    | repUS h1 h2 =>
      simp only [iterN]
      exact hf _ _ _ h1 (ih _ _ _ h2 hk)

theorem iterB_sound (hf : ∀ s k, f s k = true → ∃ t, Den a s t ∧ k t = true) :
    ∀ n m s k, iterB f m n s k = true → ∃ t, Den (.rep a m (some n)) s t ∧ k t = true := by
  intro n
  induction n with
  | zero =>
    intro m s k h
    cases m with
    | zero => exact ⟨s, .repB0, by simpa [iterB] using h⟩
    | succ m => simp [iterB] at h
  | succ n ih =>
    intro m s k h
    cases m with
    | zero =>
      simp only [iterB, Bool.or_eq_true] at h
      rcases h with h | h
      · exact ⟨s, .repB0, h⟩
      · obtain ⟨t, h1, h2⟩ := hf _ _ h
        obtain ⟨u, h3, h4⟩ := ih _ _ _ h2
        exact ⟨u, .repBO h1 h3, h4⟩
    | succ m =>
      simp only [iterB] at h
      obtain ⟨t, h1, h2⟩ := hf _ _ h
      obtain ⟨u, h3, h4⟩ := ih _ _ _ h2
      exact ⟨u, .repBS h1 h3, h4⟩

theorem iterB_complete (hf : ∀ s k t, Den a s t → k t = true → f s k = true) :
    ∀ n m s u k, Den (.rep a m (some n)) s u → k u = true → iterB f m n s k = true := by
  intro n
  induction n with
  | zero =>
    intro m s u k h hk
    cases h with
    | repB0 => simpa [iterB] using hk
  | succ n ih =>
    intro m s u k h hk
    cases h with
    | repB0 => simp [iterB, hk]
    | repBO h1 h2 =>
      simp only [iterB, Bool.or_eq_true]
      right
      exact hf _ _ _ h1 (ih _ _ _ _ h2 hk)
    | repBS h1 h2 =>
      simp only [iterB]
      exact hf _ _ _ h1 (ih _ _ _ _ h2 hk)

end loops

/-! ### Soundness and completeness of `Re.m`. -/

theorem single_iff (p : UInt8 → Bool) (s : St) (k : St → Bool) :
    single p s k = true ↔ ∃ b post, s.post = b :: post ∧ p b = true ∧ k ⟨b :: s.pre, post⟩ = true := by
  obtain ⟨pre, post⟩ := s
  cases post with
  | nil => simp [single]
  | cons b post =>
    simp only [single, Bool.and_eq_true]
    constructor
    · rintro ⟨h1, h2⟩; exact ⟨b, post, rfl, h1, h2⟩
    · rintro ⟨b', post', h, h1, h2⟩
      simp at h
      obtain ⟨rfl, rfl⟩ := h
      exact ⟨h1, h2⟩

theorem m_sound (r : Re) : ∀ s k, r.m s k = true → ∃ t, Den r s t ∧ k t = true := by
  induction r with
  | empty => intro s k h; exact ⟨s, .empty, h⟩
  | lit bs fold =>
    intro s k h
    simp only [Re.m] at h
    split at h
    · rename_i t ht; exact ⟨t, .lit ht, h⟩
    · simp at h
  | any =>
    intro s k h
    obtain ⟨b, post, h1, h2, h3⟩ := (single_iff _ _ _).1 h
    obtain ⟨pre, q⟩ := s
    simp at h1; subst h1
    exact ⟨_, .any h2, h3⟩
  | anyNL =>
    intro s k h
    obtain ⟨b, post, h1, _, h3⟩ := (single_iff _ _ _).1 h
    obtain ⟨pre, q⟩ := s
    simp at h1; subst h1
    exact ⟨_, .anyNL, h3⟩
  | cls neg rs fold =>
    intro s k h
    obtain ⟨b, post, h1, h2, h3⟩ := (single_iff _ _ _).1 h
    obtain ⟨pre, q⟩ := s
    simp at h1; subst h1
    exact ⟨_, .cls h2, h3⟩
  | bol =>
    intro s k h
    simp only [Re.m, Bool.and_eq_true, List.isEmpty_iff] at h
    exact ⟨s, .bol h.1, h.2⟩
  | eol =>
    intro s k h
    simp only [Re.m, Bool.and_eq_true, List.isEmpty_iff] at h
    exact ⟨s, .eol h.1, h.2⟩
  | wordB =>
    intro s k h
    simp only [Re.m, Bool.and_eq_true] at h
    exact ⟨s, .wordB h.1, h.2⟩
  | nwordB =>
    intro s k h
    simp only [Re.m, Bool.and_eq_true, Bool.not_eq_true'] at h
    exact ⟨s, .nwordB h.1, h.2⟩
  | cat a b iha ihb =>
    intro s k h
    simp only [Re.m] at h
    obtain ⟨t, h1, h2⟩ := iha _ _ h
    obtain ⟨u, h3, h4⟩ := ihb _ _ h2
    exact ⟨u, .cat h1 h3, h4⟩
  | alt a b iha ihb =>
    intro s k h
    simp only [Re.m, Bool.or_eq_true] at h
    rcases h with h | h
    · obtain ⟨t, h1, h2⟩ := iha _ _ h; exact ⟨t, .altL h1, h2⟩
    · obtain ⟨t, h1, h2⟩ := ihb _ _ h; exact ⟨t, .altR h1, h2⟩
  | star a iha =>
    intro s k h
    simp only [Re.m] at h
    exact starLoop_sound iha _ _ _ h
  | plus a iha =>
    intro s k h
    simp only [Re.m] at h
    obtain ⟨t, h1, h2⟩ := iha _ _ h
    obtain ⟨u, h3, h4⟩ := starLoop_sound iha _ _ _ h2
    exact ⟨u, .plus h1 h3, h4⟩
  | quest a iha =>
    intro s k h
    simp only [Re.m, Bool.or_eq_true] at h
    rcases h with h | h
    · exact ⟨s, .quest0, h⟩
    · obtain ⟨t, h1, h2⟩ := iha _ _ h; exact ⟨t, .quest1 h1, h2⟩
  | rep a m mx iha =>
    intro s k h
    cases mx with
    | none => simp only [Re.m] at h; exact iterN_sound iha _ _ _ h
    | some n => simp only [Re.m] at h; exact iterB_sound iha _ _ _ _ h
  | grp a iha =>
    intro s k h
    simp only [Re.m] at h
    obtain ⟨t, h1, h2⟩ := iha _ _ h
    exact ⟨t, .grp h1, h2⟩

theorem m_complete (r : Re) : ∀ s k t, Den r s t → k t = true → r.m s k = true := by
  induction r with
  | empty => intro s k t h hk; cases h; exact hk
  | lit bs fold =>
    intro s k t h hk
    cases h with
    | lit h => simp only [Re.m, h]; exact hk
  | any =>
    intro s k t h hk
    cases h with
    | any hb => simp [Re.m, single] at hb ⊢; exact ⟨hb, hk⟩
  | anyNL =>
    intro s k t h hk
    cases h with
    | anyNL => simp [Re.m, single]; exact hk
  | cls neg rs fold =>
    intro s k t h hk
    cases h with
    | cls hb => simp only [Re.m, single, hb, Bool.true_and]; exact hk
  | bol => intro s k t h hk; cases h with | bol h => simp [Re.m, h, hk]
  | eol => intro s k t h hk; cases h with | eol h => simp [Re.m, h, hk]
  | wordB => intro s k t h hk; cases h with | wordB h => simp [Re.m, h, hk]
  | nwordB => intro s k t h hk; cases h with | nwordB h => simp [Re.m, h, hk]
  | cat a b iha ihb =>
    intro s k t h hk
    cases h with
    | cat h1 h2 => simp only [Re.m]; exact iha _ _ _ h1 (ihb _ _ _ h2 hk)
  | alt a b iha ihb =>
    intro s k t h hk
    simp only [Re.m, Bool.or_eq_true]
    cases h with
    | altL h => exact .inl (iha _ _ _ h hk)
    | altR h => exact .inr (ihb _ _ _ h hk)
  | star a iha =>
    intro s k t h hk
    simp only [Re.m]
    exact starLoop_complete iha h _ _ (Nat.le_refl _) hk
  | plus a iha =>
    intro s k t h hk
    cases h with
    | plus h1 h2 =>
      simp only [Re.m]
      exact iha _ _ _ h1 (starLoop_complete iha h2 _ _ (Nat.le_refl _) hk)
  | quest a iha =>
    intro s k t h hk
    simp only [Re.m, Bool.or_eq_true]
    cases h with
    | quest0 => exact .inl hk
    | quest1 h => exact .inr (iha _ _ _ h hk)
  | rep a m mx iha =>
    intro s k t h hk
    cases mx with
    | none => simp only [Re.m]; exact iterN_complete iha _ _ _ _ h hk
    | some n => simp only [Re.m]; exact iterB_complete iha _ _ _ _ _ h hk
  | grp a iha =>
    intro s k t h hk
    cases h with
    | grp h => simp only [Re.m]; exact iha _ _ _ h hk

/-- The matcher computes exactly the declarative semantics. -/
theorem m_iff (r : Re) (s : St) (k : St → Bool) : r.m s k = true ↔ ∃ t, Den r s t ∧ k t = true :=
  ⟨m_sound r s k, fun ⟨t, h, hk⟩ => m_complete r s k t h hk⟩

/-! ### `search` -/

theorem searchFrom_iff (r : Re) : ∀ (post pre : Bytes), searchFrom r pre post = true ↔
    ∃ x t, (∃ z, post = x ++ z) ∧ Den r ⟨x.reverse ++ pre, post.drop x.length⟩ t := by
  intro post
  induction post with
  | nil =>
    intro pre
    simp only [searchFrom, m_iff]
    constructor
    · rintro ⟨t, h, _⟩; exact ⟨[], t, ⟨[], rfl⟩, by simpa using h⟩
    · rintro ⟨x, t, ⟨z, hz⟩, h⟩
      have : x = [] := by
        cases x with
        | nil => rfl
        | cons _ _ => simp at hz
      subst this
      exact ⟨t, by simpa using h, trivial⟩
  | cons b post ih =>
    intro pre
    simp only [searchFrom, Bool.or_eq_true, m_iff, ih]
    constructor
    · rintro (⟨t, h, _⟩ | ⟨x, t, ⟨z, hz⟩, h⟩)
      · exact ⟨[], t, ⟨_, rfl⟩, by simpa using h⟩
      · refine ⟨b :: x, t, ⟨z, by simp [hz]⟩, ?_⟩
        simpa using h
    · rintro ⟨x, t, ⟨z, hz⟩, h⟩
      cases x with
      | nil => left; exact ⟨t, by simpa using h, trivial⟩
      | cons c x =>
        right
        simp at hz
        obtain ⟨rfl, hz⟩ := hz
        refine ⟨x, t, ⟨z, hz⟩, ?_⟩
        simpa using h

/-- `search` = "some factor `y` of the subject is matched in its context". -/
theorem search_iff (r : Re) (u : Bytes) : search r u = true ↔
    ∃ x y z, u = x ++ y ++ z ∧ Den r ⟨x.reverse, y ++ z⟩ ⟨y.reverse ++ x.reverse, z⟩ := by
  simp only [search, searchFrom_iff]
  constructor
  · rintro ⟨x, t, ⟨w, hw⟩, h⟩
    subst hw
    simp at h
    obtain ⟨y, h1, h2⟩ := h.shape
    simp at h1 h2
    refine ⟨x, y, t.post, by simp [h1], ?_⟩
    rw [← h1]
    obtain ⟨tp, tq⟩ := t
    simp at h2 ⊢
    rw [← h2]
    exact h
  · rintro ⟨x, y, z, hu, h⟩
    subst hu
    exact ⟨x, _, ⟨y ++ z, by simp⟩, by simpa using h⟩

end UF

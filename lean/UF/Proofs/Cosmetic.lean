import UF.Proofs.EngineMatch
import UF.Spec.Cosmetic
/-
  Lemmas for C15: the probes of `findByHostname`, the contents of the built lookup table,
  the candidate loop `add`.
-/
namespace UF.B
open UF UF.Bytes

/-! ### Probed domains -/

theorem mem_probesAux (x d : Bytes) (hd : d ≠ []) : d ∈ probesAux (x ++ ch '.' :: d) := by
  induction x with
  | nil =>
    have : d.isEmpty = false := by cases d <;> simp_all
    simp [probesAux, this]
  | cons c x ih =>
    simp only [List.cons_append, probesAux]
    split
    · have : (x ++ ch '.' :: d).isEmpty = false := by cases x <;> simp
      simp [this, ih]
    · exact ih

/-- A non-empty name `d` is probed whenever the hostname is `d` or ends in `"." ++ d`. -/
theorem mem_probes (host d : Bytes) (hd : d ≠ []) (h : host = d ∨ ∃ x, host = x ++ ch '.' :: d) :
    d ∈ probes host := by
  rcases h with rfl | ⟨x, rfl⟩
  · have : host.isEmpty = false := by cases host <;> simp_all
    simp [probes, this]
  · have : (x ++ ch '.' :: d).isEmpty = false := by cases x <;> simp
    simp only [probes, this, Bool.false_eq_true, if_false, List.mem_cons]
    exact Or.inr (mem_probesAux x d hd)

/-! ### String-keyed maps -/

@[simp] theorem sget_sset {α} (d : α) (m : SMap α) (k : Bytes) (v : α) (x : Bytes) :
    sget d (sset m k v) x = if x = k then v else sget d m x := rfl

theorem mem_foldl_sset {β} (c : β) (ds : List Bytes) (m : SMap (List β)) (y : β) (x : Bytes) :
    y ∈ sget [] (ds.foldl (fun m d => sset m d (sget [] m d ++ [c])) m) x ↔
      y ∈ sget [] m x ∨ (y = c ∧ x ∈ ds) := by
  induction ds generalizing m with
  | nil => simp
  | cons d ds ih =>
    simp only [List.foldl_cons, ih, sget_sset, List.mem_cons]
    by_cases hx : x = d
    · subst hx
      simp only [if_true, List.mem_append, List.mem_singleton, true_or, and_true]
      constructor
      · rintro ((h | h) | ⟨h, _⟩)
        · exact Or.inl h
        · exact Or.inr h
        · exact Or.inr h
      · rintro (h | h)
        · exact Or.inl (Or.inl h)
        · exact Or.inl (Or.inr h)
    · simp [hx]

/-! ### Contents of the built table -/

def hasWild (r : CosRule) : Bool := r.permDomains.any (fun d => Bytes.hasSuffix d (lit ".*"))

structure CosInv (t : CosTable) (P : List (CosRule × Nat)) : Prop where
  wl : ∀ c r, r ∈ sget [] t.whitelist c ↔ (∃ n, (r, n) ∈ P) ∧ r.whitelist = true ∧ r.content = c
  gen : ∀ r, r ∈ t.generic ↔ (∃ n, (r, n) ∈ P) ∧ r.whitelist = false ∧ cosIsGeneric r = true
  wild : ∀ n r, (n, r) ∈ t.wildcard ↔
    (r, n) ∈ P ∧ r.whitelist = false ∧ cosIsGeneric r = false ∧ hasWild r = true
  byHost : ∀ d n r, (n, r) ∈ sget [] t.byHostname d ↔
    (r, n) ∈ P ∧ r.whitelist = false ∧ cosIsGeneric r = false ∧ hasWild r = false ∧ d ∈ r.permDomains

theorem CosInv.empty : CosInv {} [] := by
  constructor <;> simp [sget]

theorem CosInv.step {t : CosTable} {P : List (CosRule × Nat)} (inv : CosInv t P) (r : CosRule) (n : Nat) :
    CosInv (t.addRule n r) (P ++ [(r, n)]) := by
  unfold CosTable.addRule
  by_cases hw : r.whitelist = true
  · simp only [hw, if_true]
    constructor
    · intro c r'
      simp only [sget_sset, List.mem_append, List.mem_singleton, Prod.mk.injEq]
      by_cases hc : c = r.content
      · subst hc
        simp only [if_true, List.mem_append, List.mem_singleton, inv.wl]
        constructor
        · rintro (⟨⟨n', h⟩, h1, h2⟩ | rfl)
          · exact ⟨⟨n', Or.inl h⟩, h1, h2⟩
          · exact ⟨⟨n, Or.inr ⟨rfl, rfl⟩⟩, hw, rfl⟩
        · rintro ⟨⟨n', h | ⟨rfl, _⟩⟩, h1, h2⟩
          · exact Or.inl ⟨⟨n', h⟩, h1, h2⟩
          · exact Or.inr rfl
      · simp only [hc, if_false, inv.wl]
        constructor
        · rintro ⟨⟨n', h⟩, h1, h2⟩; exact ⟨⟨n', Or.inl h⟩, h1, h2⟩
        · rintro ⟨⟨n', h | ⟨rfl, _⟩⟩, h1, h2⟩
          · exact ⟨⟨n', h⟩, h1, h2⟩
          · exact absurd h2.symm hc
    · intro r'
      simp only [inv.gen, List.mem_append, List.mem_singleton, Prod.mk.injEq]
      constructor
      · rintro ⟨⟨n', h⟩, h1, h2⟩; exact ⟨⟨n', Or.inl h⟩, h1, h2⟩
      · rintro ⟨⟨n', h | ⟨rfl, _⟩⟩, h1, h2⟩
        · exact ⟨⟨n', h⟩, h1, h2⟩
        · rw [hw] at h1; cases h1
    · intro n' r'
      simp only [inv.wild, List.mem_append, List.mem_singleton, Prod.mk.injEq]
      constructor
      · rintro ⟨h, h1⟩; exact ⟨Or.inl h, h1⟩
      · rintro ⟨h | ⟨rfl, _⟩, h1, h2⟩
        · exact ⟨h, h1, h2⟩
        · rw [hw] at h1; cases h1
    · intro d n' r'
      simp only [inv.byHost, List.mem_append, List.mem_singleton, Prod.mk.injEq]
      constructor
      · rintro ⟨h, h1⟩; exact ⟨Or.inl h, h1⟩
      · rintro ⟨h | ⟨rfl, _⟩, h1, h2⟩
        · exact ⟨h, h1, h2⟩
        · rw [hw] at h1; cases h1
  · have hw' : r.whitelist = false := by cases h : r.whitelist <;> simp_all
    simp only [hw', Bool.false_eq_true, if_false]
    by_cases hg : cosIsGeneric r = true
    · simp only [hg, if_true]
      constructor
      · intro c r'
        simp only [inv.wl, List.mem_append, List.mem_singleton, Prod.mk.injEq]
        constructor
        · rintro ⟨⟨n', h⟩, h1⟩; exact ⟨⟨n', Or.inl h⟩, h1⟩
        · rintro ⟨⟨n', h | ⟨rfl, _⟩⟩, h1, h2⟩
          · exact ⟨⟨n', h⟩, h1, h2⟩
          · rw [hw'] at h1; cases h1
      · intro r'
        simp only [inv.gen, List.mem_append, List.mem_singleton, Prod.mk.injEq]
        constructor
        · rintro (⟨⟨n', h⟩, h1⟩ | rfl)
          · exact ⟨⟨n', Or.inl h⟩, h1⟩
          · exact ⟨⟨n, Or.inr ⟨rfl, rfl⟩⟩, hw', hg⟩
        · rintro ⟨⟨n', h | ⟨rfl, _⟩⟩, h1⟩
          · exact Or.inl ⟨⟨n', h⟩, h1⟩
          · exact Or.inr rfl
      · intro n' r'
        simp only [inv.wild, List.mem_append, List.mem_singleton, Prod.mk.injEq]
        constructor
        · rintro ⟨h, h1⟩; exact ⟨Or.inl h, h1⟩
        · rintro ⟨h | ⟨rfl, _⟩, h1, h2, h3⟩
          · exact ⟨h, h1, h2, h3⟩
          · rw [hg] at h2; cases h2
      · intro d n' r'
        simp only [inv.byHost, List.mem_append, List.mem_singleton, Prod.mk.injEq]
        constructor
        · rintro ⟨h, h1⟩; exact ⟨Or.inl h, h1⟩
        · rintro ⟨h | ⟨rfl, _⟩, h1, h2, h3⟩
          · exact ⟨h, h1, h2, h3⟩
          · rw [hg] at h2; cases h2
    · have hg' : cosIsGeneric r = false := by cases h : cosIsGeneric r <;> simp_all
      simp only [hg', Bool.false_eq_true, if_false]
      by_cases hwi : hasWild r = true
      · have hwi2 : (r.permDomains.any fun d => Bytes.hasSuffix d (lit ".*")) = true := hwi
        simp only [hwi2, if_true]
        constructor
        · intro c r'
          simp only [inv.wl, List.mem_append, List.mem_singleton, Prod.mk.injEq]
          constructor
          · rintro ⟨⟨n', h⟩, h1⟩; exact ⟨⟨n', Or.inl h⟩, h1⟩
          · rintro ⟨⟨n', h | ⟨rfl, _⟩⟩, h1, h2⟩
            · exact ⟨⟨n', h⟩, h1, h2⟩
            · rw [hw'] at h1; cases h1
        · intro r'
          simp only [inv.gen, List.mem_append, List.mem_singleton, Prod.mk.injEq]
          constructor
          · rintro ⟨⟨n', h⟩, h1⟩; exact ⟨⟨n', Or.inl h⟩, h1⟩
          · rintro ⟨⟨n', h | ⟨rfl, _⟩⟩, h1, h2⟩
            · exact ⟨⟨n', h⟩, h1, h2⟩
            · rw [hg'] at h2; cases h2
        · intro n' r'
          simp only [inv.wild, List.mem_append, List.mem_singleton, Prod.mk.injEq]
          constructor
          · rintro (⟨h, h1⟩ | ⟨rfl, rfl⟩)
            · exact ⟨Or.inl h, h1⟩
            · exact ⟨Or.inr ⟨rfl, rfl⟩, hw', hg', hwi⟩
          · rintro ⟨h | ⟨rfl, rfl⟩, h1⟩
            · exact Or.inl ⟨h, h1⟩
            · exact Or.inr ⟨rfl, rfl⟩
        · intro d n' r'
          simp only [inv.byHost, List.mem_append, List.mem_singleton, Prod.mk.injEq]
          constructor
          · rintro ⟨h, h1⟩; exact ⟨Or.inl h, h1⟩
          · rintro ⟨h | ⟨rfl, _⟩, h1, h2, h3, h4⟩
            · exact ⟨h, h1, h2, h3, h4⟩
            · rw [hwi] at h3; cases h3
      · have hwi' : hasWild r = false := by cases h : hasWild r <;> simp_all
        have hwi2 : (r.permDomains.any fun d => Bytes.hasSuffix d (lit ".*")) = false := hwi'
        simp only [hwi2, Bool.false_eq_true, if_false]
        constructor
        · intro c r'
          simp only [inv.wl, List.mem_append, List.mem_singleton, Prod.mk.injEq]
          constructor
          · rintro ⟨⟨n', h⟩, h1⟩; exact ⟨⟨n', Or.inl h⟩, h1⟩
          · rintro ⟨⟨n', h | ⟨rfl, _⟩⟩, h1, h2⟩
            · exact ⟨⟨n', h⟩, h1, h2⟩
            · rw [hw'] at h1; cases h1
        · intro r'
          simp only [inv.gen, List.mem_append, List.mem_singleton, Prod.mk.injEq]
          constructor
          · rintro ⟨⟨n', h⟩, h1⟩; exact ⟨⟨n', Or.inl h⟩, h1⟩
          · rintro ⟨⟨n', h | ⟨rfl, _⟩⟩, h1, h2⟩
            · exact ⟨⟨n', h⟩, h1, h2⟩
            · rw [hg'] at h2; cases h2
        · intro n' r'
          simp only [inv.wild, List.mem_append, List.mem_singleton, Prod.mk.injEq]
          constructor
          · rintro ⟨h, h1⟩; exact ⟨Or.inl h, h1⟩
          · rintro ⟨h | ⟨rfl, _⟩, h1, h2, h3⟩
            · exact ⟨h, h1, h2, h3⟩
            · rw [hwi'] at h3; cases h3
        · intro d n' r'
          simp only [mem_foldl_sset, inv.byHost, List.mem_append, List.mem_singleton, Prod.mk.injEq]
          constructor
          · rintro (⟨h, h1⟩ | ⟨⟨rfl, rfl⟩, hd⟩)
            · exact ⟨Or.inl h, h1⟩
            · exact ⟨Or.inr ⟨rfl, rfl⟩, hw', hg', hwi', hd⟩
          · rintro ⟨h | ⟨rfl, rfl⟩, h1, h2, h3, h4⟩
            · exact Or.inl ⟨h, h1, h2, h3, h4⟩
            · exact Or.inr ⟨⟨rfl, rfl⟩, h4⟩

theorem CosInv.foldl (Q : List (CosRule × Nat)) (t : CosTable) (P : List (CosRule × Nat)) (inv : CosInv t P) :
    CosInv (Q.foldl (fun t p => t.addRule p.2 p.1) t) (P ++ Q) := by
  induction Q generalizing t P with
  | nil => simpa using inv
  | cons p Q ih =>
    simp only [List.foldl_cons]
    have := ih _ (P ++ [p]) (inv.step p.1 p.2)
    simpa using this

theorem build_cosInv (L : List CosRule) : CosInv (CosTable.build L) L.zipIdx := by
  have := CosInv.foldl L.zipIdx {} [] CosInv.empty
  simpa [CosTable.build] using this

theorem zipIdx_unique (L : List CosRule) (r r' : CosRule) (n : Nat)
    (h : (r, n) ∈ L.zipIdx) (h' : (r', n) ∈ L.zipIdx) : r = r' := by
  rw [List.mem_zipIdx_iff_getElem?] at h h'
  simp only at h h'
  rw [h] at h'; cases h'; rfl

theorem zipIdx_mem (L : List CosRule) (r : CosRule) : (∃ n, (r, n) ∈ L.zipIdx) ↔ r ∈ L := by
  constructor
  · rintro ⟨n, h⟩
    rw [List.mem_zipIdx_iff_getElem?] at h
    exact List.mem_of_getElem? h
  · intro h
    obtain ⟨n, hn⟩ := List.getElem?_of_mem h
    exact ⟨n, by rw [List.mem_zipIdx_iff_getElem?]; simpa using hn⟩

/-! ### The candidate loop of `findByHostname` -/

def addStep (ext : Ext) (t : CosTable) (host : Bytes) (found : List (Nat × CosRule)) (c : Nat × CosRule) :
    List (Nat × CosRule) :=
  if found.any (·.1 == c.1) || !cosMatches ext c.2 host || t.isWhitelisted ext host c.2 then found
  else found ++ [c]

theorem addFound_eq (ext : Ext) (t : CosTable) (host : Bytes) (found cands : List (Nat × CosRule)) :
    t.addFound ext host found cands = cands.foldl (addStep ext t host) found := rfl

theorem addStep_mono (ext : Ext) (t : CosTable) (host : Bytes) (found : List (Nat × CosRule))
    (c x : Nat × CosRule) (h : x ∈ found) : x ∈ addStep ext t host found c := by
  unfold addStep; split
  · exact h
  · simp [h]

theorem addStep_hit (ext : Ext) (t : CosTable) (host : Bytes) (found : List (Nat × CosRule))
    (c : Nat × CosRule) (hm : cosMatches ext c.2 host = true) (hw : t.isWhitelisted ext host c.2 = false) :
    ∃ r', (c.1, r') ∈ addStep ext t host found c := by
  unfold addStep
  simp only [hm, hw, Bool.not_true, Bool.or_false]
  by_cases hin : found.any (·.1 == c.1) = true
  · simp only [hin, if_true]
    obtain ⟨⟨n, r'⟩, hx, hn⟩ := List.any_eq_true.1 hin
    simp only [beq_iff_eq] at hn
    subst hn; exact ⟨r', hx⟩
  · simp only [hin]; exact ⟨c.2, by simp⟩

theorem addStep_sound (ext : Ext) (t : CosTable) (host : Bytes) (Q : Nat × CosRule → Prop)
    (found : List (Nat × CosRule)) (c : Nat × CosRule) (hf : ∀ x ∈ found, Q x)
    (hnew : cosMatches ext c.2 host = true → t.isWhitelisted ext host c.2 = false → Q c) :
    ∀ x ∈ addStep ext t host found c, Q x := by
  unfold addStep
  split
  · exact hf
  · rename_i hc
    simp only [Bool.or_eq_true, Bool.not_eq_true', not_or, Bool.not_eq_true] at hc
    intro x hx
    rcases List.mem_append.1 hx with h | h
    · exact hf x h
    · simp only [List.mem_singleton] at h
      subst h
      exact hnew (by simpa using hc.1.2) hc.2

theorem addFound_mono (ext : Ext) (t : CosTable) (host : Bytes) (found cands : List (Nat × CosRule))
    (x : Nat × CosRule) (h : x ∈ found) : x ∈ t.addFound ext host found cands := by
  rw [addFound_eq]
  exact foldl_inv _ (fun f => x ∈ f) _ _ h (fun f c _ hx => addStep_mono ext t host f c x hx)

theorem addFound_hit (ext : Ext) (t : CosTable) (host : Bytes) (found cands : List (Nat × CosRule))
    (c : Nat × CosRule) (hc : c ∈ cands) (hm : cosMatches ext c.2 host = true)
    (hw : t.isWhitelisted ext host c.2 = false) :
    ∃ r', (c.1, r') ∈ t.addFound ext host found cands := by
  rw [addFound_eq]
  apply foldl_reach _ (fun f => ∃ r', (c.1, r') ∈ f) _ _ c hc
  · intro f; exact addStep_hit ext t host f c hm hw
  · rintro f a ⟨r', h⟩; exact ⟨r', addStep_mono ext t host f a _ h⟩

theorem addFound_sound (ext : Ext) (t : CosTable) (host : Bytes) (Q : Nat × CosRule → Prop)
    (found cands : List (Nat × CosRule)) (hf : ∀ x ∈ found, Q x)
    (hnew : ∀ c ∈ cands, cosMatches ext c.2 host = true → t.isWhitelisted ext host c.2 = false → Q c) :
    ∀ x ∈ t.addFound ext host found cands, Q x := by
  rw [addFound_eq]
  let P : List (Nat × CosRule) → Prop := fun f => ∀ x ∈ f, Q x
  show P _
  apply foldl_inv _ P _ _ hf
  intro f c hc hf'
  exact addStep_sound ext t host Q f c hf' (hnew c hc)

/-- Every reported specific rule is a candidate from a bucket or the wildcard list, matches and is not excepted. -/
theorem findByHostname_sound (ext : Ext) (t : CosTable) (host : Bytes) :
    ∀ x ∈ t.findByHostname ext host,
      ((∃ d, x ∈ sget [] t.byHostname d) ∨ x ∈ t.wildcard) ∧
      cosMatches ext x.2 host = true ∧ t.isWhitelisted ext host x.2 = false := by
  unfold CosTable.findByHostname
  let Q : Nat × CosRule → Prop := fun x =>
    ((∃ d, x ∈ sget [] t.byHostname d) ∨ x ∈ t.wildcard) ∧
      cosMatches ext x.2 host = true ∧ t.isWhitelisted ext host x.2 = false
  apply addFound_sound ext t host Q
  · let P : List (Nat × CosRule) → Prop := fun f => ∀ x ∈ f, Q x
    show P _
    apply foldl_inv _ P
    · intro x hx; cases hx
    · intro f d _ hf
      exact addFound_sound ext t host Q f _ hf (fun c hc hm hw => ⟨Or.inl ⟨d, hc⟩, hm, hw⟩)
  · intro c hc hm hw; exact ⟨Or.inr hc, hm, hw⟩

/-- A matching, non-excepted candidate filed under a probed domain, or in the wildcard list, is reported. -/
theorem findByHostname_complete (ext : Ext) (t : CosTable) (host : Bytes) (c : Nat × CosRule)
    (hc : (∃ d ∈ probes host, c ∈ sget [] t.byHostname d) ∨ c ∈ t.wildcard)
    (hm : cosMatches ext c.2 host = true) (hw : t.isWhitelisted ext host c.2 = false) :
    ∃ r', (c.1, r') ∈ t.findByHostname ext host := by
  unfold CosTable.findByHostname
  rcases hc with ⟨d, hd, hcd⟩ | hcw
  · have : ∃ r', (c.1, r') ∈ (probes host).foldl
        (fun found d => t.addFound ext host found (sget [] t.byHostname d)) [] := by
      apply foldl_reach _ (fun f => ∃ r', (c.1, r') ∈ f) _ _ d hd
      · intro f; exact addFound_hit ext t host f _ c hcd hm hw
      · rintro f a ⟨r', h⟩; exact ⟨r', addFound_mono ext t host f _ _ h⟩
    obtain ⟨r', h⟩ := this
    exact ⟨r', addFound_mono ext t host _ _ _ h⟩
  · exact addFound_hit ext t host _ _ c hcw hm hw

/-! ### The built table against the rule list -/

theorem isWhitelisted_build (ext : Ext) (L : List CosRule) (host : Bytes) (r : CosRule) :
    (CosTable.build L).isWhitelisted ext host r =
      L.any (fun e => e.whitelist && e.content == r.content && cosMatches ext e host) := by
  have inv := build_cosInv L
  apply Bool.eq_iff_iff.2
  unfold CosTable.isWhitelisted
  simp only [List.any_eq_true, inv.wl, zipIdx_mem, Bool.and_eq_true, beq_iff_eq]
  constructor
  · rintro ⟨e, ⟨h1, h2, h3⟩, h4⟩; exact ⟨e, h1, ⟨h2, h3⟩, h4⟩
  · rintro ⟨e, h1, ⟨h2, h3⟩, h4⟩; exact ⟨e, ⟨h1, h2, h3⟩, h4⟩

theorem mem_generic_build (L : List CosRule) (r : CosRule) :
    r ∈ (CosTable.build L).generic ↔ r ∈ L ∧ r.whitelist = false ∧ cosIsGeneric r = true := by
  rw [(build_cosInv L).gen, zipIdx_mem]

theorem cosApplicable_iff (ext : Ext) (L : List CosRule) (host : Bytes) (r : CosRule) :
    cosApplicable ext L host r = true ↔
      r.whitelist = false ∧ cosMatches ext r host = true ∧ (CosTable.build L).isWhitelisted ext host r = false := by
  rw [isWhitelisted_build]
  unfold cosApplicable
  simp only [Bool.and_eq_true, Bool.not_eq_true', and_assoc]

/-- A matching rule with permitted domains, none of them a wildcard, is filed under a probed domain. -/
theorem cos_matches_probe (ext : Ext) (r : CosRule) (host : Bytes)
    (hwf : ∀ d ∈ r.permDomains, d ≠ []) (hg : cosIsGeneric r = false) (hw : hasWild r = false)
    (hm : cosMatches ext r host = true) : ∃ d ∈ r.permDomains, d ∈ probes host := by
  have hpe : r.permDomains.isEmpty = false := hg
  have hlen : 0 < r.permDomains.length := by
    cases hc : r.permDomains with
    | nil => rw [hc] at hpe; simp at hpe
    | cons => simp
  unfold cosMatches at hm
  simp only [hpe, Bool.false_and, Bool.false_eq_true, if_false, gt_iff_lt, hlen, decide_true, Bool.true_and] at hm
  have hany : isDomainOrSubdomainOfAny ext host r.permDomains = true := by
    cases hc : isDomainOrSubdomainOfAny ext host r.permDomains with
    | true => rfl
    | false =>
      rw [hc] at hm
      split at hm
      · cases hm
      · simp at hm
  obtain ⟨d, hd, hdm⟩ := List.any_eq_true.1 hany
  have hnw : Bytes.hasSuffix d (lit ".*") = false := by
    cases hc : Bytes.hasSuffix d (lit ".*") with
    | false => rfl
    | true =>
      have : hasWild r = true := List.any_eq_true.2 ⟨d, hd, hc⟩
      rw [hw] at this; cases this
  exact ⟨d, hd, mem_probes host d (hwf d hd) (domainEntry_plain ext host d hnw hdm)⟩

theorem mem_found_build (ext : Ext) (L : List CosRule) (host : Bytes) (hwf : CosDomainsWF L) (r : CosRule) :
    r ∈ ((CosTable.build L).findByHostname ext host).map (·.2) ↔
      r ∈ L ∧ cosIsGeneric r = false ∧ cosApplicable ext L host r = true := by
  have inv := build_cosInv L
  rw [cosApplicable_iff]
  constructor
  · intro h
    obtain ⟨⟨n, r'⟩, hx, hr⟩ := List.mem_map.1 h
    simp only at hr; subst hr
    obtain ⟨hsrc, hm, hw⟩ := findByHostname_sound ext _ host _ hx
    rcases hsrc with ⟨d, hd⟩ | hwc
    · obtain ⟨h1, h2, h3, _, _⟩ := (inv.byHost d n r').1 hd
      exact ⟨(zipIdx_mem L r').1 ⟨n, h1⟩, h3, h2, hm, hw⟩
    · obtain ⟨h1, h2, h3, _⟩ := (inv.wild n r').1 hwc
      exact ⟨(zipIdx_mem L r').1 ⟨n, h1⟩, h3, h2, hm, hw⟩
  · rintro ⟨hL, hg, hwl, hm, hw⟩
    obtain ⟨n, hn⟩ := (zipIdx_mem L r).2 hL
    have hc : (∃ d ∈ probes host, (n, r) ∈ sget [] (CosTable.build L).byHostname d) ∨
        (n, r) ∈ (CosTable.build L).wildcard := by
      by_cases hwi : hasWild r = true
      · exact Or.inr ((inv.wild n r).2 ⟨hn, hwl, hg, hwi⟩)
      · have hwi' : hasWild r = false := by cases h : hasWild r <;> simp_all
        obtain ⟨d, hd, hp⟩ := cos_matches_probe ext r host (hwf r hL) hg hwi' hm
        exact Or.inl ⟨d, hp, (inv.byHost d n r).2 ⟨hn, hwl, hg, hwi', hd⟩⟩
    obtain ⟨r', hx⟩ := findByHostname_complete ext _ host (n, r) hc hm hw
    -- the reported object with identity `n` is `r` itself
    have : r' = r := by
      obtain ⟨hsrc, _, _⟩ := findByHostname_sound ext _ host _ hx
      rcases hsrc with ⟨d, hd⟩ | hwc
      · exact zipIdx_unique L r' r n ((inv.byHost d n r').1 hd).1 hn
      · exact zipIdx_unique L r' r n ((inv.wild n r').1 hwc).1 hn
    subst this
    exact List.mem_map.2 ⟨(n, r'), hx, rfl⟩

/-- The generic pass of `CosmeticEngine.Match`. -/
def genericPass (ext : Ext) (t : CosTable) (host : Bytes) (includeGenericCSS : Bool) : List CosRule :=
  if includeGenericCSS then
    t.generic.filter (fun r => !t.isWhitelisted ext host r && cosMatches ext r host) else []

theorem matchHost_eq (ext : Ext) (t : CosTable) (host : Bytes) (js gen : Bool) :
    t.matchHost ext host true js gen =
      (((genericPass ext t host gen ++ (t.findByHostname ext host).map (·.2)).filter (fun r => cosIsGeneric r)).map (·.content),
       ((genericPass ext t host gen ++ (t.findByHostname ext host).map (·.2)).filter (fun r => !cosIsGeneric r)).map (·.content)) := rfl

theorem mem_genericPass (ext : Ext) (L : List CosRule) (host : Bytes) (gen : Bool) (r : CosRule) :
    r ∈ genericPass ext (CosTable.build L) host gen ↔
      gen = true ∧ r ∈ L ∧ cosIsGeneric r = true ∧ cosApplicable ext L host r = true := by
  unfold genericPass
  cases gen with
  | false => simp
  | true =>
    rw [if_pos rfl, List.mem_filter, mem_generic_build, cosApplicable_iff]
    constructor
    · rintro ⟨⟨h1, h2, h3⟩, h4⟩
      simp only [Bool.and_eq_true, Bool.not_eq_true'] at h4
      exact ⟨rfl, h1, h3, h2, h4.2, h4.1⟩
    · rintro ⟨_, h1, h3, h2, h4, h5⟩
      refine ⟨⟨h1, h2, h3⟩, ?_⟩
      simp only [Bool.and_eq_true, Bool.not_eq_true']
      exact ⟨h5, h4⟩

theorem mem_all_generic (ext : Ext) (L : List CosRule) (host : Bytes) (hwf : CosDomainsWF L) (gen : Bool) (r : CosRule) :
    r ∈ (genericPass ext (CosTable.build L) host gen ++
          ((CosTable.build L).findByHostname ext host).map (·.2)).filter (fun r => cosIsGeneric r) ↔
      gen = true ∧ r ∈ L ∧ cosIsGeneric r = true ∧ cosApplicable ext L host r = true := by
  rw [List.mem_filter, List.mem_append, mem_genericPass, mem_found_build ext L host hwf]
  constructor
  · rintro ⟨h | h, hg⟩
    · exact h
    · rw [h.2.1] at hg; cases hg
  · rintro ⟨h1, h2, h3, h4⟩
    exact ⟨Or.inl ⟨h1, h2, h3, h4⟩, h3⟩

theorem mem_all_specific (ext : Ext) (L : List CosRule) (host : Bytes) (hwf : CosDomainsWF L) (gen : Bool) (r : CosRule) :
    r ∈ (genericPass ext (CosTable.build L) host gen ++
          ((CosTable.build L).findByHostname ext host).map (·.2)).filter (fun r => !cosIsGeneric r) ↔
      r ∈ L ∧ cosIsGeneric r = false ∧ cosApplicable ext L host r = true := by
  rw [List.mem_filter, List.mem_append, mem_genericPass, mem_found_build ext L host hwf]
  constructor
  · rintro ⟨h | h, hg⟩
    · rw [h.2.2.1] at hg; cases hg
    · exact h
  · rintro ⟨h1, h2, h3⟩
    exact ⟨Or.inr ⟨h1, h2, h3⟩, by rw [h2]; rfl⟩

end UF.B

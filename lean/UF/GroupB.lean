-- Property files of work group B (import UF.Props.Cxx lines go here).
import UF.Driver.Ops.GroupB
import UF.Props.C01
import UF.Props.C02
import UF.Props.C15

-- Work group P2b (REVIEW2 F12): C19 composed (order, persistence of cache entries), C13 for
-- `Engine.MatchRequest` and the cosmetic query.
import UF.Props.C19Composed
import UF.Props.C13Queries

"""vcheck configuration of work group I2: PROPS = {"Cxx": {"families": [fam("name", quick_n, thorough_n)], "defects": ["Dn"]}}"""

_PAT = fam("i2.pat", 4000, 60000)
_MATCH = fam("i2.match", 3000, 50000)

PROPS = {
    "C03": {"families": [_PAT, _MATCH]},
    "C04": {"families": [_PAT, _MATCH]},
}

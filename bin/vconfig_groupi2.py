"""vcheck configuration of work group I2: PROPS = {"Cxx": {"families": [fam("name", quick_n, thorough_n)], "defects": ["Dn"]}}"""

# i2.pat     : (stored pattern, match-case, target) -> Go preparePattern + MatchString vs modelPat (groups A + G composed)
# i2.match   : NetworkRule.Match evaluated entirely in the model (Ext.pat := modelPat), no Go pattern table
# i2.newrule : rules.NewRule vs the complete parser model (groups D, E, H composed), full record dump;
#              Go-supplied tables: netip.ParseAddr / ParsePrefix only (regex shortcut from modelRegexpShortcut)
_PAT = fam("i2.pat", 4000, 60000)
_MATCH = fam("i2.match", 3000, 50000)
_NEWRULE = fam("i2.newrule", 4000, 60000)
# i2.textmatch : rule TEXT + request -> Go NewNetworkRule + Match vs complete parser model + Match over modelPat vs
#                specMatchNoShortcut (modifiers as set membership + documented mask language, no shortcut test)
_TEXTMATCH = fam("i2.textmatch", 3000, 50000)
# i2.reshortcut : findRegexpShortcut(/regex/) vs the text-level model (heuristics + literal merging + factoring of Go's parser)
_RESHORTCUT = fam("i2.reshortcut", 6000, 100000)

PROPS = {
    "C03": {"families": [_PAT, _MATCH, _TEXTMATCH]},
    "C04": {"families": [_PAT, _MATCH, _NEWRULE, _TEXTMATCH]},
    "C05": {"families": [_MATCH, _TEXTMATCH, _RESHORTCUT]},
    "C10": {"families": [_NEWRULE]},
    "C12": {"families": [_NEWRULE, _TEXTMATCH, _RESHORTCUT]},
    "C18": {"families": [_NEWRULE]},
}

# bin/vconfig.py merges the FAMILIES and DEFECTS of an already registered property but replaces the
# other keys (rule, explanation, assumptions, extra, level, coverage_extra) by those of the file loaded
# last -- this one.  Carry the earlier groups' keys over, and append our own remarks.
import glob as _g
import importlib.util as _u
import os as _o


def _inherited():
    here = _o.path.dirname(_o.path.abspath(__file__))
    me = _o.path.basename(__file__)
    acc = {}
    for f in sorted(_g.glob(_o.path.join(here, "vconfig_*.py"))):
        if _o.path.basename(f) >= me:
            continue
        spec = _u.spec_from_file_location("_i2_" + _o.path.basename(f)[:-3], f)
        m = _u.module_from_spec(spec)
        m.fam = fam
        try:
            spec.loader.exec_module(m)
        except Exception:
            continue
        for k, v in getattr(m, "PROPS", {}).items():
            d = acc.setdefault(k, {})
            for kk, vv in v.items():
                if kk not in ("families", "defects"):
                    d[kk] = vv
    return acc


_NOTE = {
    "C03": " i2.pat / i2.match (integration): the pattern oracle of Match is the composed model modelPat "
           "(group A's regexPat for /regex/ rules, group G's compiledAccepts otherwise), compared with the rule's own "
           "preparePattern + MatchString; spec column = maskAccepts for mask patterns.",
    "C04": " i2.match (integration): the whole of NetworkRule.Match in the model, no Go pattern table; spec = specMatchFull "
           "(modifiers as set membership + documented mask language). i2.newrule: complete NewRule model, full record dump.",
    "C05": " i2.match (integration): Match with the shortcut test and the modelled pattern, no oracle.",
    "C10": " i2.newrule (integration): $dnsrewrite values parsed inside the complete NewRule model (group H's loadDNSRewrite "
           "instantiated in group E's option parser), full record dump.",
    "C12": " i2.newrule (integration): rules.NewRule vs the complete parser model (TrimSpace, dispatch, hosts, cosmetic, network, "
           "every modifier, the shortcut of /regex/ rules from the text-level model of findRegexpShortcut, itself checked by i2.reshortcut); "
           "Go-supplied tables only for netip.",
    "C18": " i2.newrule (integration): hosts lines through the complete NewRule model (group H's NewHostRule over group E's "
           "IsDomainName, group D's TrimSpace), full H record dump.",
}

_inh = _inherited()
for _k in list(PROPS):
    _d = dict(_inh.get(_k, {}))
    _d.update(PROPS[_k])
    if "rule" in _d:
        _d["rule"] = _d["rule"] + _NOTE.get(_k, "")
    PROPS[_k] = _d

"""vcheck configuration of work group I2: PROPS = {"Cxx": {"families": [fam("name", quick_n, thorough_n)], "defects": ["Dn"]}}"""

PROPS = {}

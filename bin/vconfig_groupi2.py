"""vcheck configuration of work group I2: PROPS = {"Cxx": {"families": [fam("name", quick_n, thorough_n)], "defects": ["Dn"]}}"""

# i2.pat     : (stored pattern, match-case, target) -> Go preparePattern + MatchString vs modelPat (groups A + G composed)
# i2.match   : NetworkRule.Match evaluated entirely in the model (Ext.pat := modelPat), no Go pattern table
# i2.newrule : rules.NewRule vs the complete parser model (groups D, E, H composed), full record dump;
#              Go-supplied tables: netip.ParseAddr / ParsePrefix and the shortcut of /regex/ rules only
_PAT = fam("i2.pat", 4000, 60000)
_MATCH = fam("i2.match", 3000, 50000)
_NEWRULE = fam("i2.newrule", 4000, 60000)

PROPS = {
    "C03": {"families": [_PAT, _MATCH]},
    "C04": {"families": [_PAT, _MATCH, _NEWRULE]},
    "C05": {"families": [_MATCH]},
    "C10": {"families": [_NEWRULE]},
    "C12": {"families": [_NEWRULE]},
    "C18": {"families": [_NEWRULE]},
}

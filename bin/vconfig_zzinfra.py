"""Infrastructure families under the engine-level properties (loaded last).

The engine-level properties quantify over list CONTENTS and over requests as the library builds them: "the rules of a
list" are the lines of its content parsed one by one, whatever the backing, and a request is what rules.NewRequest /
NewRequestForHostname make of a URL or hostname.  A change in the scanner, the storage, a backing store or the request
constructor therefore breaks these properties as well (the engine loses or mangles rules; third-party / domain fields
are wrong), although the families that look at scanner, storage and request construction DIRECTLY belong to C11 and C17.
Small samples of those families run under every engine-level property, so that such a change is reported by the check
of the property it was made against, with the concrete list or URL as failing input."""

_SCAN = [fam("i1.scan", 99, 1500), fam("c11store", 40, 400), fam("c11chunk", 60, 600), fam("c13.tail", 60, 600),
         fam("c11.interleave", 10, 100)]
_REQ = [fam("c17", 900, 9000)]

PROPS = {p: {"families": list(_SCAN) + (list(_REQ) if p in ("C01", "C04", "C05", "C06", "C13", "C15", "C16") else [])}
         for p in ("C01", "C02", "C06", "C08", "C09", "C12", "C13", "C15", "C16", "C18", "C19")}
PROPS["C04"] = {"families": list(_REQ)}
PROPS["C05"] = {"families": list(_REQ)}

"""vcheck configuration of work group N2 (sizes and counts above the generators' former ranges, one-field twins).

PROPS = {"Cxx": {"families": [fam("name", quick_n, thorough_n)]}}; `fam` is injected by bin/vconfig.py.

c20html.big : the `c20.html` ops of c20html (model and reference columns compared byte by byte) on bodies of
    20 KB … 1.2 MiB, plain and gzip, marker inside / at the end of / beyond the 16 KiB window or absent
    (harness/op_n2_c20big.go).  Serial (prefix c20html); about 1 s per op.

(The other changes of group N2 are inputs added to EXISTING families, see harness/gen_n2.go.)
"""

PROPS = {
    "C20": {"families": [fam("c20html.big", 10, 60, seeds=2)]},
}

#!/usr/bin/env python3
"""Rewrites the seeded-changes table of DESIGN.md from seeded/*/meta.json and notes/seedsweep.txt."""
import glob, json, os, re
V = os.path.dirname(os.path.dirname(os.path.abspath(__file__)))
sweep = {}
sp = os.path.join(V, "notes", "seedsweep.txt")
if os.path.exists(sp):
    for l in open(sp):
        t = l.split(" ", 3)
        if len(t) >= 3 and not l.startswith("#"):
            sweep[t[0]] = t[2].strip()
rows = ["| id | property | site | needs to manifest | first caught by | last sweep (own check) |", "|---|---|---|---|---|---|"]


def key(m):
    i = os.path.basename(os.path.dirname(m))
    a, b = i.rsplit("-", 1)
    return (a, int(b))


def needs(d, dirn):
    n = d.get("needs_to_manifest", "").strip()
    if not n or n.startswith("#") or len(n) < 25:
        # the first line of the README that is not a heading
        for l in open(os.path.join(dirn, "README.md")):
            l = l.strip()
            if l and not l.startswith("#"):
                n = l
                break
    return n


for m in sorted(glob.glob(os.path.join(V, "seeded", "*", "meta.json")), key=key):
    d = json.load(open(m))
    dirn = os.path.dirname(m)
    diff = open(os.path.join(dirn, "patch.diff")).read()
    files = sorted(set(l[6:] for l in diff.splitlines() if l.startswith("+++ b/")))
    det = "; ".join(x.split(":")[0] for x in d.get("detected_by", [])) or "missed when written (see 8.6/8.9)"
    esc = lambda t: t.replace("|", "\\|").replace("\n", " ")
    rows.append("| %s | %s | %s | %s | %s | %s |" % (d["id"], d["property"], ", ".join(files), esc(needs(d, dirn))[:200], esc(det),
                                                  sweep.get(d["id"], "-")))
p = os.path.join(V, "DESIGN.md")
s = open(p).read()
a = s.index("<!-- SEEDTABLE BEGIN -->")
b = s.index("<!-- SEEDTABLE END -->")
s = s[:a] + "<!-- SEEDTABLE BEGIN -->\n" + "\n".join(rows) + "\n" + s[b:]
open(p, "w").write(s)
print(len(rows) - 2, "seeded changes;", sum(1 for v in sweep.values() if v == "quick"), "quick,",
      sum(1 for v in sweep.values() if v == "thorough"), "thorough-only,", sum(1 for v in sweep.values() if v not in ("quick", "thorough")), "other in the last sweep")

#!/usr/bin/env python3
"""Rewrites the seeded-changes table of DESIGN.md from seeded/*/meta.json."""
import glob, json, os, re
V = os.path.dirname(os.path.dirname(os.path.abspath(__file__)))
rows = ["| id | property | site | needs to manifest | detected by |", "|---|---|---|---|---|"]
for m in sorted(glob.glob(os.path.join(V, "seeded", "*", "meta.json"))):
    d = json.load(open(m))
    diff = open(os.path.join(os.path.dirname(m), "patch.diff")).read()
    files = sorted(set(l[6:] for l in diff.splitlines() if l.startswith("+++ b/")))
    det = "; ".join(x.split(":")[0] for x in d.get("detected_by", [])) or "NOT DETECTED"
    esc = lambda t: t.replace("|", "\\|").replace("\n", " ")
    rows.append("| %s | %s | %s | %s | %s |" % (d["id"], d["property"], ", ".join(files), esc(d["needs_to_manifest"])[:220], esc(det)))
p = os.path.join(V, "DESIGN.md")
s = open(p).read()
a = s.index("<!-- SEEDTABLE BEGIN -->")
b = s.index("<!-- SEEDTABLE END -->")
s = s[:a] + "<!-- SEEDTABLE BEGIN -->\n" + "\n".join(rows) + "\n" + s[b:]
open(p, "w").write(s)
print(len(rows) - 2, "seeded changes")

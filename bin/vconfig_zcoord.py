"""Coordinator additions (loaded last): families shared between properties."""

PROPS = {
    # the effective rewrites are computed from PARSED values: run the parse correspondence of C10 here too, so that a
    # value mangled at parse time (e.g. a TXT value cut at its first ';') is seen by C09's own check
    "C09": {"families": [fam("c10", 1500, 15000)]},
    # the "generic" notion of C06 (no PERMITTED domain) is the one the priority order reads
    "C06": {"families": [fam("c07.prio", 1000, 8000)]},
}

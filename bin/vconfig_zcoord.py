"""Coordinator additions (loaded last): families shared between properties."""

PROPS = {
    # the effective rewrites are computed from PARSED values: run the parse correspondence of C10 here too, so that a
    # value mangled at parse time (e.g. a TXT value cut at its first ';') is seen by C09's own check
    "C09": {"families": [fam("c10", 1500, 15000)]},
    # the "generic" notion of C06 (no PERMITTED domain) is the one the priority order reads
    "C06": {"families": [fam("c07.prio", 1000, 8000), fam("c13.srcmemo", 150, 2000)]},
    # changes that need SCALE (thousands of retrieved rules) or a particular request sequence to manifest
    "C02": {"families": [fam("scale", 1, 1, seeds=2)]},
    "C13": {"families": [fam("scale", 1, 1, seeds=2), fam("c13.srcmemo", 150, 2000), fam("c13.tail", 100, 1500)]},
    # scanning and retrieval INTERLEAVED on one storage, String vs File backing (defect D17 of the pinned tree)
    "C11": {"families": [fam("c13.tail", 100, 1500), fam("c11.interleave", 30, 300)], "defects": ["D17"]},
    "C19": {"families": [fam("scale", 1, 1, seeds=2)]},
    "C04": {"families": [fam("c04.collide", 40, 400)], "defects": ["D13"]},
    "C03": {"families": [fam("c04.collide", 40, 400)]},
    "C05": {"families": [fam("scale.hist", 1, 1, seeds=2)]},
    "C01": {"families": [fam("scale.hist", 1, 1, seeds=2)]},
    "C17": {"families": [fam("c17.memo", 40, 400)]},
    # hosts lines served from FILE-backed lists (last line without a newline, retrieved after longer lines)
    "C18": {"families": [fam("c13.tail", 100, 1500)]},
    # a rule and its $badfilter twin must both be FOUND by the engine for the twin to work: run the lookup scenarios
    # (non-ASCII URLs whose lower-case form has another length included) here too
    "C08": {"families": [fam("c01.matchall", 800, 8000, seeds=2)]},
}

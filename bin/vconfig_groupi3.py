"""vcheck configuration of work group I3 (top-level composition): PROPS = {"Cxx": {"families": [...]}}

Only families are registered here; bin/vconfig.py keeps the other keys (rule, explanation, assumptions, …) of the
groups loaded earlier.

i3.web : RAW inputs — 1-3 lists given as BYTES (blocking rules, plain / important / document-level exceptions
         ($elemhide $generichide $jsinject $document $urlblock $genericblock $content $extension), $domain rules,
         $badfilter twins, $stealth / $dnsrewrite / $popup rules, /regex/ rules, cosmetic rules, comments, hosts lines,
         invalid and mutated lines, padding, CRLF, ids incl. negative and extreme, IgnoreCosmetic on/off) + URL string +
         source URL string (mostly hosts the lists are written about, so that referrer-level exceptions and $domain
         decide) + request type + cosmetic hostname + psl / netip tables (NO pattern, rewrite or shortcut table);
         Go = urlfilter.NewEngine(storage).MatchRequest(rules.NewRequest(url, src, type)): class of GetBasicResult,
         BasicRule / DocumentRule texts, GetCosmeticOption, Engine.GetCosmeticResult(host, option) selector sets;
         model = engineMatchRequest (UF/Compose3/WebTop.lean: NewRequest model -> storage scan with the modelled NewRule
         -> engine -> MatchAll twice -> NewMatchingResult) + getCosmeticOption + engineCosmeticResult;
         spec = classWeb over the matching lines / referrer matching lines (c06_top), specCosmeticOption of the
         modifiers WRITTEN in the basic rule's text (c16_top), specCosmeticResult for that option (c16_top_cosmetic);
         the basic / document texts must be matching lines.
i3.dns : RAW inputs — 1-3 lists given as BYTES (host-level rules with $important / $dnstype / $ctag / $client /
         $denyallow, $dnsrewrite rules of many shapes with empty / valued / important exceptions and $badfilter twins,
         hosts lines v4/v6, bare domains, non-host-level rules, noise) + DNSRequest fields (hostname mostly one the
         lists are written about, record type, client name / address, sorted tags), several requests on ONE engine
         so that the request pool recycles; Go = NewDNSEngine(storage).MatchRequest(dReq) + res.DNSRewrites();
         model = dnsEngineMatchRequest on a STALE pooled request (UF/Compose3/DnsTop.lean) + dnsRewrites;
         spec = specDns over the lines parsed one by one for the request the fields alone describe + the reference
         of C09 over its network rules (c02_top, c02_top_rewrites, c02_top_pool).
"""

_WEB = fam("i3.web", 300, 5000, seeds=4)
_DNS = fam("i3.dns", 300, 5000, seeds=4)

PROPS = {
    "C06": {"families": [_WEB]},
    "C16": {"families": [_WEB]},
    "C17": {"families": [_WEB]},
    "C02": {"families": [_DNS]},
    "C09": {"families": [_DNS]},
}

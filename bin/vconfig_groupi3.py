"""vcheck configuration of work group I3."""

PROPS = {}

"""vcheck configuration of work group E: PROPS = {"Cxx": {"families": [fam("name", quick_n, thorough_n)], "defects": ["Dn"]}}"""

PROPS = {
    "C04": {
        "families": [
            fam("c04.match", 3000, 25000),
            fam("c04.parse", 4000, 40000),
            fam("c04.textmatch", 3000, 25000),
            fam("c04.perm", 1000, 8000),
            fam("c04.units", 4000, 30000),
        ],
        "defects": ["D3"],
        "rule": "op lines generated from VERIF_SEED: c04.match = rule from the modifier grammar x request aimed at its values "
                "(Go Match vs model vs spec from the modifier values); c04.parse = NewNetworkRule field dump vs the parser model on grammar, "
                "byte-mutated and real-list texts; c04.textmatch = Go parse+Match vs specMatch(parse model(text)); c04.units = IsDomainName / splitWithEscapeCharacter / parseRuleText / findShortcut one by one against their models on boundary-aimed inputs (labels of 62-64 bytes, xn-- prefixes, 252-254 byte names, escapes); c04.perm = Go-only assert: permuting the values inside every list-valued modifier changes neither the parse outcome, the sorted fields nor Match on 12 aimed requests; distinct by hash of the op "
                "input; non-trivial = the answer is not F/err/none and the input is in the model's domain",
    },
    "C12": {
        "families": [
            fam("c12.newrule", 4000, 40000),
            fam("c12.crash", 150, 1000),
            fam("c12.inert", 100, 600),
        ],
        "defects": ["D2"],
        "rule": "c12.newrule = rules.NewRule vs the model on grammar lines, hosts/cosmetic/comment lines and real-list lines with byte "
                "mutations (answer none|err|kind:text:id|PANIC); c12.crash = no panic in NewRule/Match/NewDNSEngine/NewEngine/"
                "NewNetworkEngine + a batch of queries for a mutated list (Go-only assert); c12.inert = results of the real engines on a "
                "batch are equal for L and L + noise lines / CRLF (Go-only assert)",
    },
}

#!/usr/bin/env python3
"""Writes /verif/MANIFEST.json from the table below (run after changing what is claimed)."""
import json
import os
import subprocess

VERIF = os.path.dirname(os.path.dirname(os.path.abspath(__file__)))
props = [json.loads(l) for l in open(os.path.join(VERIF, "properties.jsonl"))]
ids = [p["id"] for p in props]

TB = ("Trusted: Lean 4.33 kernel (axioms propext, Classical.choice, Quot.sound only), the Lean compiler for the driver, "
      "the harness/comparator (differential correspondence, testing), the facts extractor; modelled not verified: "
      "publicsuffix and netip (oracle tables), gzip, the Go runtime; Go's regexp engine is modelled (UF/Model/Regex*.lean) and validated "
      "differentially against the real engine (DESIGN.md sections 3 and 8).")

# property -> (claimed?, level category, text, technique, note)
TECH = ("Lean 4 theorems over a hand-written executable model + differential correspondence (Go vs model vs spec) + regenerated facts; "
        "clauses about timing, files, sockets, scale or histories are driven by Go-only assert families whose expected answers transcribe the theorems")

CLAIMS = {
    "C01": (True, "proof",
            "Theorems c01_sound/c01_complete/c01 (UF/Props/C01.lean): for EVERY hash function (coherent between FastHash and FastHashBetween; even a constant one), every "
            "window length, every rule list and insertion order and every request, the texts reported by the modelled engine (shortcut table with histogram, "
            "domains table, sequential table) equal the linear scan; c01_djb2 instantiates the real djb2 and the regenerated shortcutLength; c01_insertion_order. "
            "Hypotheses made explicit and discharged elsewhere: retrieval (C11), parser well-formedness of $domain values. Tie: whole-scenario lines through the real "
            "NetworkEngine.MatchAll (all three tables, engineered window and text hash collisions, last-window URLs) vs model vs spec, plus the bundled 38k-rule list as a search aid.",
            TECH, TB),
    "C02": (True, "proof",
            "isHostLevel_iff (the mask idiom = 'no $domain, not both content-type lists, no disabled options, enabled within important|badfilter') and c02/c02_djb2: "
            "for every hash the DNS result (network rule texts as a set, NetworkRule nil-ness and class, V4/V6 host rules, matched) equals the reference scan. "
            "GetDNSBasicRule enters as a parameter constrained by BasicRespectsTexts (its own theorems are C06/C07). Tie: real DNSEngine.MatchRequest on mixed lists "
            "with colliding host names.", TECH, TB),
    "C03": (True, "proof",
            "c03_nopanic, c03_text_closed_form, c03_text (the text handed to regexp.Compile PARSES to exactly the expression of the pattern's mask tokens: no pattern "
            "character is read as a regex operator), c03_ast (that expression accepts exactly the documented mask language, all subjects without LF), c03 (as written, "
            "'/*' tail included) + decided fact obligations on the regenerated Regex*/Mask* constants and the 256-byte escape table. Tie: exact text equality of "
            "patternToRegexp vs model (exhaustive for short patterns/token strings), acceptance of the rule's real compiled regexp vs model vs spec.",
            "Lean 4 proof (regex parser + semantics model, induction over mask tokens) + differential correspondence + regenerated constants",
            TB + " Domain: ASCII patterns, subjects without LF; RE2 semantics modelled for the subset the mask compiler emits."),
    "C04": (True, "proof",
            "c04 (model of NetworkRule.Match = per-modifier set-membership reference, for well-formed rules and requests in the domain), c04_text (end to end from the "
            "rule TEXT through the modelled parser), merge_iff_common / bsearch_iff_mem / domain_test_iff / wildcard_test_iff / reqtype_iff, c04_parser_sorts, and the "
            "order-independence theorems c04_perm*, c04_unreachable_options. Tie: the modelled parser reproduces Go's parsed rule field by field (grammar, mutated and "
            "real-list texts), Match vs model vs spec on requests aimed at the rule's own values, text-level reference, permutation asserts.",
            TECH, TB + " Domain: one content-type bit, sorted request tags, hostnames not starting with '.'; in c04 the pattern matcher is a parameter, instantiated by the proved mask/regex model in Props/C04Full."),
    "C05": (True, "proof",
            "c05_re / c05_runs / c05_regex_shortcut (every literal the parsed expression requires is a factor of every accepted, lower-cased string -- for an ARBITRARY "
            "candidate generator), c05_mask_* (findShortcut returns a maximal run free of * ^ |, no slice panic), c05 (Match is unchanged without the shortcut test). "
            "Tie: Go's own regexp/syntax tree of every regex rule (bundled lists + grammar) converted to the model and checked against the real engine; the rule's Shortcut "
            "must be justified by a required literal; rule.Match vs pattern acceptance on members of the language.",
            TECH, TB),
    "C06": (True, "proof",
            "c06_web / c06_dns (model of NewMatchingResult+GetBasicResult / GetDNSBasicRule = documented precedence class), c06_perm / c06_dns_perm / c06_split (order and "
            "list split independence), c06_basic_effective. $replace (unreachable from rule text) is a stated hypothesis, with *_all variants covering it. Tie: real "
            "NewMatchingResult, GetDNSBasicRule, Engine.MatchRequest, DNSEngine.MatchRequest on multisets over all feature combinations in several permutations.",
            TECH, TB),
    "C07": (True, "proof",
            "higher_iff (IsHigherPriority = lexicographic comparison of (class, redirect, specific, modifier count)), hence c07_irrefl, c07_asymm, c07_trans, "
            "c07_incomp_trans for EVERY pair/triple of rule records; c07_add_* (adding a counted feature ranks strictly higher); c07_selected_maximal, c07_perm. Fact "
            "obligation: IsHigherPriority reads the same fields from both operands (go/ast). Tie: the whole Go priority matrix over a 2304-rule feature pool (thorough) vs "
            "model, Go-side law asserts, and the real selection loops.", TECH, TB + " 'Adding a modifier' is stated on rule records in Props/C07 and on rule TEXTS, with its exceptions (document-only options replace the content types), in Props/C07Text."),
    "C08": (True, "proof",
            "removeBad_eq (filter formulation for any number of badfilter rules), negates_iff (all matching-relevant fields), c08_twin / c08_twins (adding k twin pairs at "
            "any positions changes nothing), c08_other, c08_verdict_*, c08_rewrites_* (DNSRewrites applies $badfilter: D14). Fact obligation: negatesBadfilter reads every "
            "matching-relevant field. Tie: VerifNegatesBadfilter / VerifRemoveBadfilterRules, twin pairs through the real engines.", TECH, TB),
    "C09": (True, "proof",
            "c09 (DNSRewrites = reference filter of DNSRewritesAll as SEQUENCES, for every length), c09_noexc, c09_perm, c09_important, c09_empty_exception. Tie: "
            "exhaustive enumeration of all sequences up to length 4 (quick) / 5 (+6 over a sub-alphabet, thorough) over a 24-shape alphabet and sampled long ones, half "
            "through a real DNSEngine.", TECH, TB),
    "C10": (True, "proof",
            "c10 (every accepted $dnsrewrite value has the published shape incl. uint16 bounds, for EVERY byte string and address oracle), c10_total (no slice/index "
            "failure), c10_dichotomy, c10_value_by_type, fact obligations on the handler-map keys and keyword list. Tie: full rewrite dump of loadDNSRewrite and of "
            "NewNetworkRule vs model on grammar-generated and mutated values.", TECH, TB),
    "C11": (True, "proof",
            "pack_unpack / pack_inj (all int32 pairs, bit extensionality), trimSpace_* , scan_retrieve_string, retrieveFile_eq_string (EVERY chunking of the block reads), "
            "c11 / c11_history (every scanned rule is retrieved by its index from any reachable cache state), c11_ref (scan = parse each line), c11_backing. Tie: real "
            "RuleStorage over String and File lists (real temp files) incl. 10 KiB lines, extreme ids, garbage indices; TrimSpace vs model.",
            TECH, TB + " In c11 rules.NewRule is a parameter assumed to trim first; c11_real instantiates it with the parser model. The storage model is a pure function of the contents: that a scanner and RetrieveRule do not disturb one another is checked by the family c11.interleave (it found defect D17, repaired)."),
    "C12": (True, "proof",
            "c12_total_* (no modelled slice/index ever fails, all byte strings), c12_outcomes / c12_text (a line yields nothing, an error, or a rule with the trimmed text "
            "and the given id), c12_inert_* (blank, comment and rejected lines and CRLF do not change the accepted sequence). Tie: rules.NewRule vs model on arbitrary "
            "bytes; crash stream building all engines under recover; inertness asserts on the real engines incl. >4 KiB noise lines.",
            TECH, TB + " Crashes inside unmodelled library code can only be sampled."),
    "C13": (True, "proof",
            "fill_overwrites (refilling a pooled request leaves nothing of its previous content), c13 / c13_history / c13_fresh (answer after any history = answer on a "
            "fresh state, cache invariant), rewrites_fresh (the capacity-limited reslice never touches the caller's slice). Fact obligations: the field list of "
            "rules.Request equals the set assigned on refill (reflect + go/ast). Tie: histories of hundreds of mixed queries on real engines vs fresh engines, old "
            "results re-serialised, abstract trace replayed on the model.", TECH, TB),
    "C14": (True, "proof",
            "PARTIAL BY NATURE. Proved: c14_sc -- for every schedule (any number of threads, any length) of the abstract query program, every finished query returns "
            "the sequential answer; c14_granularity_matters (with seek and read as separate actions a 4-step schedule returns another rule's line). The atomicity "
            "granularity is tied to the code by c14_fact_lock_table (go/ast: every access to the cache, file, buffer, regex, invalid flag lies inside its mutex region). "
            "NOT provable here: absence of Go data races, sync.Pool/os.File/regexp internals -- explored by a -race build running 2-32 goroutines on cold String and "
            "File storages with yield perturbation at four hook points, every answer compared with the sequential one.",
            "Lean 4 proof over an abstract concurrent model + extracted lock-region facts + race-detector exploration",
            TB + " The Go memory model and scheduler are outside the model; the race run is exploration, not proof."),
    "C15": (True, "proof",
            "c15 (generic and specific selector lists of the modelled cosmetic engine = reference computed with Match over all rules, every list, hostname, flag "
            "combination, psl oracle), c15_match_probe, c15_flags. Tie: real CosmeticEngine.Match on generated lists x hostnames x all 8 flag combinations.", TECH, TB),
    "C16": (True, "proof",
            "c16_bits / c16 / c16_mono / c16_flags / c16_nonexception over EVERY option mask: GetCosmeticOption = All minus the union of what each modifier disables, "
            "monotone. Tie: all 512 modifier subsets as real rule texts through NewMatchingResult().GetCosmeticOption() and Engine.GetCosmeticResult; regenerated bit constants.",
            "Lean 4 proof over a hand-written model + exhaustive differential correspondence + regenerated constants", TB),
    "C17": (True, "proof",
            "extract_host (on the URL grammar), etld1_spec (hand-rolled eTLD+1 = suffix plus one label for every psl oracle), third_party_iff / third_party_symm, "
            "lower_capped, fill_hostname, c17_request_eq_ref, c17_total. Tie: NewRequest / NewRequestForHostname field dumps vs model vs reference, Go-side asserts "
            "against net/url and publicsuffix on hosts drawn from PSL rule shapes, URLs around the 4 KiB cap.", TECH, TB),
    "C18": (True, "proof",
            "c18_model_eq_spec (NewHostRule = blank-token reference on every line), split_tokens, c18_ip / c18_bare (the line grammar), c18_comment_inert, "
            "host_match_iff, c18_groups, c18_dispatch / c18_not_comment_not_cosmetic. Tie: NewHostRule, NewRule and a real DNSEngine (listed, near-miss, hash-colliding "
            "and unlisted names; V4/V6 group).", TECH, TB),
    "C19": (True, "proof",
            "c19_nopanic, c19_subset (every schedule of queries and close events: every returned rule is a member of the fault-free answer; the sublist form is c19_composed, sequential only), c19_truthful, c19_cached / "
            "c19_cache_persists. Tie: file-backed lists on real temp files, Close() / closed descriptor before every query k, no panic, results within a linear-scan "
            "oracle, cached rules still served, the model predicts the degraded answers and cache sizes.", TECH, TB),
    "C20": (True, "proof",
            "latin1_roundtrip, c20_index, c20 (filterHTML = body[:i] ++ tag ++ body[i:] for the first in-window marker counted in BYTES of the body, any window size; "
            "length and headers), c20_count, c20_unchanged. Tie: proxy.VerifFilterHTML on bodies over all 256 byte values, plain and gzip, markers in every case around "
            "the 16 KiB window, near-markers.", TECH, TB),
}


# composition results of the second round, appended to the claim texts
EXTRA = {
    "C01": "Composition (Props/C01Compose): c01_storage / c01_storage_hash state the same FROM THE BYTES of the lists (scanner model + parser model + storage indexes + engine), with RetrievalOK discharged by C11 and DomainsWF/TextDeterminesRule by the parser model; i1.chain checks that chain against the real RuleStorage+NetworkEngine.",
    "C02": "Top level (Props/C02Top): c02_top* state the whole DNS answer incl. DNSRewrites() from list bytes and DNS request fields through the pooled request. Composition (Props/C02Compose): c02_basic discharges BasicRespectsTexts for the modelled GetDNSBasicRule (C06/C07), c02_storage states C02 from list bytes; i1.dnschain runs the chain against the real DNSEngine.",
    "C03": "Composition (Props/C03Full): c03_full for the pattern model used as Ext.pat, c03_models_agree (the two independent models of preparePattern for /regex/ patterns coincide). Regexp quirk (Props/C03Quirk): mask expressions contain no fold-flag hazard, so Go's flag-blind alternation factoring (modelled in Model/RegexQuirk) is the identity on them.",
    "C04": "Text-level reference (Props/C04Text, group L): an independent modifier grammar as data, grammar-level lemmas for all modifier families and c04_text_ref: Match of the parsed rule = specMatchText of the STRUCTURED modifiers (never the parser); l.textref renders texts in Go and compares. Composition (Props/C04Full): c04_full / c04_full_end_to_end replace the pattern oracle by the proved mask/regex model (modelPat) -- from the rule TEXT, Match = reference with the documented mask language; i2.match / i2.textmatch evaluate the whole of Match and NewNetworkRule in the model with only psl/netip tables from Go. Order (Props/C04Perm): c04_spec_perm / c04_text_ref_perm -- permuting modifiers and values never changes the match (side condition: each value-carrying modifier at most once; c04_perm_once_needed shows it is needed). Wider grammar (Props/C04Wide): quoted client names, ~extension, /-patterns. Regex rules (Props/C04Quirk): Match = modifiers and search of the tree Go really compiles (goTree of the written tree).",
    "C05": "Composition (Props/C05Full): c05_mask_full discharges the compiled-expression hypothesis from C03's maskAst; c05_regex_text proves the MODELLED findRegexpShortcut (text heuristics + required literals of Go's parse tree) sound; i2.reshortcut compares it with the real function. Regexp quirk (Props/C05Quirk): parseRE answers the written tree up to the fold flags Go's regexp/syntax.factor assigns (modelled), c05_required_any_flags: required literals stay factors of every lower-cased match under any flag assignment.",
    "C10": "Composition (Props/C10Full): the shape theorem for the rewrite stored by the complete NewRule model.",
    "C11": "Composition (Props/C11Compose): c11_real instantiates the parser parameter with the modelled rules.NewRule (TrimsFirst proved); i1.scan checks the scanner chain.",
    "C12": "Engine level (Props/C12Engine, group K): inserting blank/comment/rejected lines or switching LF to CRLF in the list BYTES leaves MatchAll texts, the DNS result and the cosmetic selectors unchanged. Composition (Props/C12Full): the complete NewRule model (TrimSpace of C11, NewHostRule of C18, loadDNSRewrite of C10, regex shortcut model) with c12_outcomes_full / c12_inert_full free of parameter assumptions; i2.newrule compares whole parsed records with rules.NewRule.",
    "C15": "Composition (Props/C15Compose): CosDomainsWF discharged from the cosmetic parser model, c15_storage from list bytes, i1.coschain against the real engine.",
    "C13": "Engine level (Props/C13Engine, group J): the machine's environment is instantiated with the engine models built from list bytes (c13_pure_is_engine: its stateless answer IS Engine.matchAll / DnsEngine.matchRequest), so c13_engine* speak about the engines; the preparePattern state is a per-object cell in the machine (c13_cell_is_function_of_rule). Query kinds (Props/C13Queries): the machine also runs Engine.MatchRequest and cosmetic queries; c13_queries / c13_matchRequest_top / c13_cosmetic_top / c13_two_engines.",
    "C14": "Engine level (Props/C14Engine): c14_engine* for every schedule over the engine-instantiated machine with the compile cells and the unlocked f.regex read as a separate action; ownership facts c14_fact_no_query_writes / c14_fact_writers_constructor_only (go/ast: no query path writes engine, lookup-table or storage fields other than the cache). Section facts (Props/C14Sections): typed extraction of every critical section with its ordered accesses; check-then-act pairs of the model lie in ONE section, every access to guarded state anywhere is locked or one of five listed deliberate ones, no query path in any package writes a frozen struct field or a package-level variable.",
    "C19": "Engine level (Props/C19Engine): the machine has an explicit crash outcome; c19_nopanic says no schedule of queries and close events reaches it, and c19_nil_check_needed exhibits for each table a schedule that crashes once its nil check is removed; c19_engine* on the engine-instantiated machine. Composed (Props/C19Composed): c19_composed -- one statement for any history with close events: no crash, answers are sublists of the fault-free answers, everything cached before the fault is still returned; c19_composed_concurrent (membership; an order witness shows sublist fails under concurrency).",
    "C07": "Text level (Props/C07Text, group L): appending a modifier to the rule TEXT ranks strictly higher for every modifier family, with the document-only exception characterised exactly (c07_text_doconly_iff). Exact (Props/C07TextExact): c07_text_key (priority of any two texts = comparison of keys computed from the modifiers as written), c07_text_document_iff (threshold of six permitted types), ~extension, repeats, re-written list modifiers, one more value.",
    "C08": "Engine level (Props/C08Engine/C08Order/C08Text): twins match the same requests, c08_storage* from list bytes (verdict, DNS result and rewrites unchanged by inserting a rule with its twin anywhere), value-order lemmas.",
    "C09": "Text level (Props/C09Text): the disabling relation written from the property text, proved equal to the implementation's relation; the naive literal reading refuted by a checked example.",
    "C06": "Top level (Props/C06Top, group I3): c06_top states the verdict class of the modelled Engine.MatchRequest from list bytes and URL strings; i3.web runs that chain against the real engine. More (Props/C06TopMore): c06_top_netmatch* (NetworkEngine.Match), c06_top_document, c06_top_lines_set / _perm_lines / _resplit / _regroup: the verdict class depends only on the set of accepted lines.",
    "C16": "Top level (Props/C16Top): c16_text (from the rule TEXT through the parser model), c16_top / c16_top_cosmetic from raw inputs. Raw (Props/C16TopRaw): c16_top_raw -- from list bytes and URLs exactly one of three cases, with the three bit equivalences.",
    "C17": "Top level (Props/C17Top): the request and referrer request built inside Engine.MatchRequest equal the reference request.",
    "C18": "Composition (Props/C18Full): NewRule's dispatch for hosts lines with the modelled IsDomainName (no Go table).",
}

NOTE_EXTRA = {pid: " Model = Go is established for ASCII URLs and list contents only (byte-wise lower-casing in the model, Unicode folding in Go: DESIGN 8.5); other inputs are answered ood by the driver and only checked for crashes." for pid in ("C01", "C02", "C06", "C15", "C16", "C17")}
NOTE_EXTRA["C08"] = (" 'Same modifier values' is read as Go compares them: $domain/$denyallow/$dnstype lists as sequences, $ctag/$client up to order "
                     "(DESIGN 8.5); both halves are theorems (Props/C08Order) and pinned by l.c08order.")
NOTE_EXTRA["C09"] = (" 'Empty value' is read on the parsed record: the keyword NOERROR and record types without a value parser (NS, SOA, ...) "
                     "parse to a value-less record (DESIGN 8.5).")
NOTE_EXTRA["C17"] += (" The reference is the Public Suffix List library as it is: it is case-sensitive and IP-unaware (1.2.3.4 -> 3.4, A.CO.UK -> CO.UK), "
                      "and NewRequest agrees with it (DESIGN 8.5).")
NOTE_EXTRA["C20"] = " Plain and gzip bodies, as in the property; other Content-Encoding values are outside it (DESIGN 8.5)."

NA_REASON = "check under construction in this round (model/spec/theorems and correspondence ops being built; see DESIGN.md section 4); not claimed yet"


def main():
    hooks = subprocess.run(["git", "-C", "/repo", "log", "--format=%h %s"], capture_output=True, text=True).stdout.splitlines()
    hook_commits = [l.split(" ")[0] for l in hooks if l.split(" ", 1)[1].startswith("verif hooks")]
    checks, na = [], []
    for pid in ids:
        c = CLAIMS.get(pid)
        if c and c[0]:
            checks.append({
                "property_id": pid,
                "quick_cmd": "bin/vcheck %s quick" % pid,
                "thorough_cmd": "bin/vcheck %s thorough" % pid,
                "evidence_file": "/verif/evidence/%s.json" % pid,
                "replay_cmd_template": "bin/vcheck --replay {path}",
                "engine": "lean-model+go-harness",
                "level_claimed": {"category": c[1], "text": c[2] + (" " + EXTRA[pid] if pid in EXTRA else ""), "design_ref": "DESIGN.md section 4, " + pid},
                "level_note": c[4] + NOTE_EXTRA.get(pid, ""),
                "technique": c[3],
            })
        else:
            na.append({"property_id": pid, "reason": (c[2] if c else NA_REASON)})
    m = {
        "version": 1,
        "setup_cmd": "bin/setup",
        "hooks": {
            "guard": "verif",
            "enable": "go build -tags verif (the harness module /verif/harness replaces github.com/AdguardTeam/urlfilter with /repo, so every check rebuilds from /repo's current working tree)",
            "baseline_off_cmd": "cd /repo && go test -vet=off -count=1 ./...",
            "source_commits": hook_commits,
            "add_only": True,
        },
        "engines": [{
            "name": "lean-model+go-harness", "path": "/verif/lean, /verif/harness, /verif/bin/vcheck",
            "serves_properties": [c["property_id"] for c in checks],
            "kind_free_text": "Lean 4 model/spec/theorems (lake project UF, core only) + Go differential harness + regenerated facts",
        }],
        "checks": checks,
        "not_applicable": na,
        "notes": "Every check: regenerate UF/Gen/Facts.lean from /repo, rebuild, audit #print axioms of the property theorems, replay the corpus, "
                 "run the seeded correspondence (Go vs Lean model vs Lean spec). VERIF_SEED selects the PRNG seed.",
    }
    json.dump(m, open(os.path.join(VERIF, "MANIFEST.json"), "w"), indent=1)
    print("claimed:", [c["property_id"] for c in checks])


if __name__ == "__main__":
    main()

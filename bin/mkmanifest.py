#!/usr/bin/env python3
"""Writes /verif/MANIFEST.json from the table below (run after changing what is claimed)."""
import json
import os
import subprocess

VERIF = os.path.dirname(os.path.dirname(os.path.abspath(__file__)))
props = [json.loads(l) for l in open(os.path.join(VERIF, "properties.jsonl"))]
ids = [p["id"] for p in props]

TB = ("Trusted: Lean 4.33 kernel (axioms propext, Classical.choice, Quot.sound only), the Lean compiler for the driver, "
      "the harness/comparator (differential correspondence, testing), the facts extractor; modelled not verified: "
      "Go regexp, publicsuffix, netip, gzip, the Go runtime (DESIGN.md section 3).")

# property -> (claimed?, level category, text, technique, note)
CLAIMS = {
    "C16": (True, "proof",
            "Lean theorems c16_bits/c16/c16_mono/c16_flags/c16_nonexception over EVERY option mask (not only the 2^9 named subsets) "
            "prove that the modelled GetCosmeticOption equals 'All minus the union of what each modifier disables' and is monotone; "
            "the model is tied to the Go code by the regenerated option/cosmetic bit constants and by an exhaustive correspondence run "
            "of all 512 modifier subsets as real rule texts through NewMatchingResult().GetCosmeticOption() and Engine.GetCosmeticResult.",
            "Lean 4 proof over a hand-written model + exhaustive differential correspondence + regenerated constants",
            TB),
    "C03": (True, "proof",
            "Lean theorems (UF/Props/C03.lean, 14 obligations): c03_nopanic (patternToRegexp never slices out of range, all byte strings), "
            "c03_text_closed_form (the rewritten text is start ++ one fixed piece per pattern byte ++ end), c03_text (for every ASCII pattern the text handed "
            "to regexp.Compile PARSES to exactly the expression of the pattern's mask tokens -- no pattern character is read as a regex operator), "
            "c03_ast (that expression accepts, under unanchored search, exactly the documented mask language, for ALL subjects without a line feed), and "
            "c03 (compiled matcher = mask language for the pattern as written, '/*' tail included); plus decided fact obligations tying the proof to the "
            "current Regex*/Mask* constants and the 256-byte escape table regenerated from /repo. Tie to Go: exact text equality of patternToRegexp vs model "
            "(exhaustive over <=2-char patterns and short token strings, sampled beyond) and acceptance of the rule's real compiled regexp vs model vs spec on "
            "pattern-derived subjects. Go's regexp engine itself is modelled (UF/Model/Regex*.lean), validated differentially against the real engine.",
            "Lean 4 proof (parser + semantics of a regex model, induction over mask tokens) + differential correspondence + regenerated constants",
            TB + " Domain: ASCII patterns, subjects without LF; RE2 semantics modelled for the subset the mask compiler emits."),
}

NA_REASON = "check under construction in this round (model/spec/theorems and correspondence ops being built; see DESIGN.md section 4); not claimed yet"


def main():
    hooks = subprocess.run(["git", "-C", "/repo", "log", "--format=%h %s"], capture_output=True, text=True).stdout.splitlines()
    hook_commits = [l.split(" ")[0] for l in hooks if l.split(" ", 1)[1].startswith("verif hooks")]
    checks, na = [], []
    for pid in ids:
        c = CLAIMS.get(pid)
        if c and c[0]:
            checks.append({
                "property_id": pid,
                "quick_cmd": "bin/vcheck %s quick" % pid,
                "thorough_cmd": "bin/vcheck %s thorough" % pid,
                "evidence_file": "/verif/evidence/%s.json" % pid,
                "replay_cmd_template": "bin/vcheck --replay {path}",
                "engine": "lean-model+go-harness",
                "level_claimed": {"category": c[1], "text": c[2], "design_ref": "DESIGN.md section 4, " + pid},
                "level_note": c[4],
                "technique": c[3],
            })
        else:
            na.append({"property_id": pid, "reason": (c[2] if c else NA_REASON)})
    m = {
        "version": 1,
        "setup_cmd": "bin/setup",
        "hooks": {
            "guard": "verif",
            "enable": "go build -tags verif (the harness module /verif/harness replaces github.com/AdguardTeam/urlfilter with /repo, so every check rebuilds from /repo's current working tree)",
            "baseline_off_cmd": "cd /repo && go test -vet=off -count=1 ./...",
            "source_commits": hook_commits,
            "add_only": True,
        },
        "engines": [{
            "name": "lean-model+go-harness", "path": "/verif/lean, /verif/harness, /verif/bin/vcheck",
            "serves_properties": [c["property_id"] for c in checks],
            "kind_free_text": "Lean 4 model/spec/theorems (lake project UF, core only) + Go differential harness + regenerated facts",
        }],
        "checks": checks,
        "not_applicable": na,
        "notes": "Every check: regenerate UF/Gen/Facts.lean from /repo, rebuild, audit #print axioms of the property theorems, replay the corpus, "
                 "run the seeded correspondence (Go vs Lean model vs Lean spec). VERIF_SEED selects the PRNG seed.",
    }
    json.dump(m, open(os.path.join(VERIF, "MANIFEST.json"), "w"), indent=1)
    print("claimed:", [c["property_id"] for c in checks])


if __name__ == "__main__":
    main()

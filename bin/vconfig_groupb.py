"""vcheck configuration of work group B: PROPS = {"Cxx": {"families": [fam("name", quick_n, thorough_n)], "defects": ["Dn"]}}"""

PROPS = {
    "C01": {
        "families": [fam("c01.matchall", 1500, 20000, seeds=4)],
        "defects": ["D1"],
        "rule": "each op is a whole scenario (1-4 lists, 1-60 parsed network rules with their storage indexes, one request, oracle tables) "
                "run through the real NetworkEngine.MatchAll, the model engine (shortcut/domain/sequential tables, djb2) and the linear scan; "
                "answers are sorted sets of rule texts; non-trivial = a non-empty answer; distinct by hash of the op input",
    },
}

"""vcheck configuration of work group B: PROPS = {"Cxx": {"families": [fam("name", quick_n, thorough_n)], "defects": ["Dn"]}}"""

PROPS = {
    "C01": {
        "families": [fam("c01.matchall", 1500, 20000, seeds=4), fam("c01.real", 40, 4000, seeds=2), fam("c01.hash", 1000, 20000, seeds=2)],
        "defects": ["D1"],
        "rule": "each op is a whole scenario (1-4 lists, 1-60 parsed network rules with their storage indexes, one request, oracle tables) "
                "run through the real NetworkEngine.MatchAll, the model engine (shortcut/domain/sequential tables, djb2) and the linear scan; "
                "answers are sorted sets of rule texts; non-trivial = a non-empty answer; distinct by hash of the op input. "
                "c01.real (Go only, a search aid): the real engine over testdata/easylist.txt vs rule.Match over all of its network rules on testdata/requests.json",
    },
    "C02": {
        "families": [fam("c02.dns", 1500, 20000, seeds=4)],
        "defects": [],
        "rule": "each op is a whole scenario (1-3 lists mixing adblock rules, hosts lines, bare domains, browser-only modifiers, "
                "colliding host names; every parsed rule with its storage index; one DNS request; oracle tables; Go's GetDNSBasicRule choice as input) "
                "run through the real DNSEngine.MatchRequest, the model DNS engine and the reference scan; answer = "
                "(network rule texts)|NetworkRule==nil|(v4 host rules)|(v6 host rules)|matched; non-trivial = not the all-empty answer",
    },
    "C15": {
        "families": [fam("c15.cosm", 2000, 24000, seeds=4)],
        "defects": ["D9", "D3"],
        "rule": "each op is a whole scenario (1-2 lists of ##/#@# rules: generic, one or many domains, negated, wildcard TLD, duplicate selectors; "
                "hostname = listed/subdomain/sibling/unrelated; all 8 flag combinations) through the real CosmeticEngine.Match, the model lookup table "
                "and the reference; answer = (generic selectors)|(specific selectors); non-trivial = not ()|()",
    },
}

"""vcheck configuration of group R1 (generator strengthening after seed round 5)."""

PROPS = {
    # NetworkRule.Match on the request the real rules.NewRequest builds, against a model/spec that derive the
    # registrable domains and the third-party flag themselves from the two URLs (hosts without eTLD+1 included)
    "C04": {"families": [fam("c04.reqmatch", 1500, 15000)]},
}

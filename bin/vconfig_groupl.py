"""vcheck configuration of integration group L (text-level references, engine-level statements):
PROPS = {"Cxx": {"families": [...]}} — families only.

l.textref  : C04 at TEXT level.  The harness generates STRUCTURED modifiers (any subset of the modifiers of the
             grammar, 1..6 values each, negations, any order of modifiers and values, both spellings of third-party /
             first-party, document-only options, $document), renders the rule text itself, parses it with the real
             rules.NewNetworkRule and answers Match on a request aimed at the values; the driver renders the same
             structure with the Lean `render` (first column: byte-identical renderings), runs parser + matcher models
             on the text, and computes the reference `specMatchText` from the STRUCTURED modifiers only
             (theorems c04_grammar_*, c04_text_ref).  Group P2 widened the generator and the reference: quoted
             client names ('Kids-PC', "Frank's phone", escaped quote characters), `~extension`, patterns beginning
             with `/` that are not /regex/ rules (lean/UF/Compose5/GrammarW.lean, theorem c04_wide_text_ref).
l.c09mixed : C09, the relation written from the property text (`disablesText`): sequences mixing rcode-only /
             CNAME / record rewrites and exceptions (the edge `[NOERROR rewrite, CNAME exception]` of the review),
             real DNSResult.DNSRewrites() vs model vs text-level reference (c09_text, c09_disablesText_eq).
l.c07text  : C07 at TEXT level (Go-side asserts, expected answers per the theorems c07_text_*): pairs t / t,m through
             IsHigherPriority in both directions — strictly higher for the modifiers where the text-level statement
             holds, higher / tie / LOWER for a document-only option on a rule with < 2 / 2 / > 2 permitted content
             types (c07_text_doconly_iff), tie for a content type on a document-only rule and for ,dnsrewrite=.
             Group P1 (harness/op_p1_c07exact.go, two lines in five): `,document` (c07_text_document_iff: < 6 / = 6 /
             > 6 counted types + present $document bits), `,~extension` (c07_text_not_extension_iff), a repeated bare
             modifier (c07_text_repeat_tie), a list-valued modifier written again (c07_text_domain_again_iff,
             c07_text_list_again_tie), one more value at any position (c07_text_add_value_iff); `~extension` may
             already occur in the original text.
l.c08order : C08, the value-ORDER behaviour of the twin relation (Go-side asserts, expected answers per the lemmas
             c08_order_*): near-twins whose list-valued modifier has its values permuted are negated iff the parser
             sorts that modifier ($ctag, $client) and not for $domain / $denyallow / $dnstype; through
             VerifNegatesBadfilter and real engines.
"""

PROPS = {
    "C04": {"families": [fam("l.textref", 1500, 30000, seeds=4)]},
    "C07": {"families": [fam("l.c07text", 1500, 30000, seeds=4)]},
    "C08": {"families": [fam("l.c08order", 300, 5000, seeds=4)]},
    "C09": {"families": [fam("l.c09mixed", 400, 8000, seeds=4)]},
}

"""vcheck configuration of work group F (C13, C14, C19).

PROPS = {"Cxx": {"families": [fam("name", quick_n, thorough_n)], "defects": ["Dn"], ...}}
`fam` is injected by bin/vconfig.py.
"""
import os
import re
import subprocess
import time

GOENV = dict(os.environ, GOFLAGS="-mod=mod", GOPROXY="off", GOSUMDB="off", GOTOOLCHAIN="local")


def c14_extra(tier, seed, harness, problems, stats, build_harness):
    """Dynamic part of C14: the harness built with `-race -tags verif`, request multisets partitioned
    over 2..32 goroutines on cold and warm String-/File-backed storages, yields at the four hook points.
    Any race report (exit code 66 / "WARNING: DATA RACE") or answer different from the sequential one is
    a violation.  Exploration, not proof."""
    t0 = time.time()
    fs = stats.setdefault("c14race", {"evaluations": 0, "ood": 0, "answers": {}, "distinct": set(), "nontrivial": set(),
                                      "samples": [], "wall_s": 0.0})
    n_before = len(problems)
    race = build_harness(problems, race=True)
    if not race:
        # build_harness has appended a harness-build problem
        if len(problems) == n_before:
            problems.append({"kind": "race", "detail": "could not build the -race harness"})
        return
    rounds = 300 if tier == "quick" else 1000
    seeds = [seed] if tier == "quick" else [seed + 1000 * k for k in range(4)]
    for s in seeds:
        env = dict(GOENV, GORACE="halt_on_error=0 exitcode=66")
        try:
            p = subprocess.run([race, "c14race", str(s), str(rounds)], capture_output=True, text=True, env=env, timeout=3000)
        except subprocess.TimeoutExpired:
            problems.append({"kind": "race", "detail": "race harness timed out (seed %d)" % s})
            continue
        out, err = p.stdout, p.stderr
        m = re.search(r"SUMMARY rounds=(\d+) evaluations=(\d+) mismatches=(\d+) duplicates_only=(\d+) nontrivial_sequential=(\d+) yields=(\S+)", out)
        races = err.count("WARNING: DATA RACE")
        if races or p.returncode == 66:
            first = err[err.find("WARNING: DATA RACE"):][:2500] if races else err[-1500:]
            # the round (or fresh-name trial) the first report belongs to: the next "c14race: end of round ..." line
            # below it, or the last "c14race: fresh-name trial" line above it
            at = err.find("WARNING: DATA RACE") if races else -1
            rnd = re.search(r"^c14race: end of (round .*)$", err[at:], re.M) if at >= 0 else None
            trial = [l for l in err[:max(at, 0)].splitlines() if l.startswith("c14race: fresh-name trial")]
            where = ("in " + trial[-1][9:]) if trial else (("in " + rnd.group(1)[:2000]) if rnd else "")
            problems.append({"kind": "race", "detail": "seed %d: %d race report(s), exit code %d; replay: harness-race c14race %d %d; first report %s\n%s" % (
                s, races, p.returncode, s, rounds, where, first)})
        mism = [l for l in out.splitlines() if l.startswith("MISMATCH ")]
        if mism:
            problems.append({"kind": "sc-mismatch", "detail": "seed %d: %s" % (s, mism[0][:2500])})
        if not m:
            # the process died: a Go runtime `fatal error:` (concurrent map access is not recoverable) or a panic
            # stands at the START of stderr; the last "fresh-name trial" line says where it was
            fatal = [i for i, l in enumerate(err.splitlines()) if l.startswith(("fatal error:", "panic:"))]
            where = [l for l in err.splitlines() if l.startswith("c14race: ")]
            head = "\n".join(err.splitlines()[fatal[0]:fatal[0] + 30]) if fatal else ""
            if fatal or (not races and not mism):
                problems.append({"kind": "race", "detail": "seed %d: the race harness died without a summary (exit %d)%s: %s" % (
                    s, p.returncode, (" in " + where[-1]) if where else "", head[:2500] or (err or out)[-1500:])})
            continue
        ev, mm, dup, nt = int(m.group(2)), int(m.group(3)), int(m.group(4)), int(m.group(5))
        fs["evaluations"] += ev
        fs["answers"]["equal-to-sequential"] = fs["answers"].get("equal-to-sequential", 0) + ev - mm
        if mm:
            fs["answers"]["mismatch"] = fs["answers"].get("mismatch", 0) + mm
        if dup:
            fs["answers"]["equal-as-sets-only"] = fs["answers"].get("equal-as-sets-only", 0) + dup
        for i in range(int(m.group(1))):
            fs["distinct"].add("%d/%d" % (s, i))
        for i in range(nt):
            fs["nontrivial"].add("%d/%d" % (s, i))
        sets_only = [l for l in out.splitlines() if l.startswith("SETS-ONLY ")]
        if sets_only:
            # since the repair of D15 (one rule object per storage index) a concurrent answer must equal the
            # sequential one exactly, duplicates included
            problems.append({"kind": "sc-mismatch", "detail": "seed %d: concurrent answer equals the sequential one only as a set "
                             "(a rule reported twice): %s" % (s, sets_only[0][:2500])})
        if len(fs["samples"]) < 3:
            fs["samples"].append({"op": "harness-race c14race %d %d" % (s, rounds), "go": m.group(0)[:300], "model": "-", "spec": "-",
                                  "note": "yields at hook points 1/2/3/4 = %s; race reports = %d%s" % (
                                      m.group(6), races,
                                      ("; answers equal to the sequential ones only AS SETS (a rule returned twice), e.g. " + sets_only[0][:600]) if sets_only else "")})
    fs["wall_s"] += time.time() - t0


_MODEL_LIMITS = (
    "What is PROVED is a statement about the Prog state machine (lean/UF/Model/Prog.lean: rule cache, request pool, "
    "per-object lazy-compile cells read by Match, ruleIn, explicit crash outcome) -- for every schedule of its atomic "
    "actions (any number of threads, any length) no thread crashes and every finished query returns the stateless "
    "answer -- and, in Props/C14Engine.lean, the same with the environment instantiated by the engine models built "
    "from the bytes of the lists (lookup tables of C01/C02, NetworkRule.Match, storage retrieval of C11), where the "
    "stateless answer IS Engine.matchAll / DnsEngine.matchRequest. "
    "Outside the model and NOT proved: the Go memory model and scheduler, sync.Mutex/RWMutex, sync.Pool "
    "(syncutil.Pool), os.File and regexp internals, and that one critical section of the code is one atomic action "
    "(that granularity is an assumption, compared on every run with the lock table extracted from the source by "
    "go/ast). The -race run and the goroutine partitions are exploration of the schedules the Go scheduler "
    "happened to produce, not proof."
)

PROPS = {
    "C13": {
        "families": [fam("c13hist", 20000, 60000, seeds=4)],
        "rule": "one `assert` per history of 10..500 mixed DNS/web/MatchAll/cosmetic queries on engines sharing one storage "
                "(each answer vs a fresh engine, derived-result calls on old results, re-serialisation at the end) plus one "
                "`c13model` line replaying the abstract trace (candidate indices observed on fresh spying engines, match bits, "
                "observed answers and RuleStorage.GetCacheSize()) on the Lean Prog model; distinct by hash of the line; "
                "non-trivial = not the empty answer",
        "explanation": "Theorems are about the Prog/Pool state machine (Props/C13.lean: any environment) and about its "
                       "instance with the engine models built from the bytes of the lists (Props/C13Engine.lean: the stateless "
                       "answer is Engine.matchAll / DnsEngine.matchRequest with group D's storage in any reachable cache state); "
                       "the lazy-compile cell of a rule object is READ by Match and proved to be a function of the rule. The tie "
                       "to the Go code is the generated field facts (Facts.requestFields = Facts.requestAssignedOnRefill = the "
                       "model's field list), and the differential histories (the abstract trace carries each rule's "
                       "preparePattern status). sync.Pool, regexp and the Go runtime are modelled, not verified.",
    },
    "C14": {
        "families": [fam("c14sc", 40, 400, seeds=4)],
        "defects": ["D15"],
        "extra": c14_extra,
        "level": "proof",
        "rule": "c14sc: one `assert` per round (a request multiset partitioned over 2..32 goroutines, cold then warm cache, yields "
                "at the four hook points, every answer vs the sequential one) in the ordinary harness; c14race: the same rounds in the "
                "harness built with -race; a race report or an answer that differs from the sequential one is a violation",
        "explanation": _MODEL_LIMITS,
        "assumptions": [
            "PARTIAL BY NATURE: " + _MODEL_LIMITS,
        ],
    },
    "C19": {
        "families": [fam("c19fault", 2500, 6000, seeds=4)],
        "rule": "one `assert` per scenario (File-backed lists on real temp files, history of 8..40 queries, fault = storage.Close() "
                "or a closed descriptor before query k; all k when the budget allows): no panic, returned rules truly match "
                "(linear-scan oracle) and are a subset of the fault-free retrieval, rules retrieved before k still served; plus one "
                "`c19model` line: the Prog model with the lists closed at the same point must predict the degraded answers and "
                "cache sizes exactly",
        "explanation": "Theorems are about the Prog state machine with the fault action `close listId` and an explicit crash "
                       "outcome: the nil checks of the three tables are branches of the machine (with one removed a crash is "
                       "reachable: c19_nil_check_needed), no schedule of queries and close events reaches crash, every returned "
                       "rule is genuine and matches; Props/C19Engine.lean states the same for the engine models built from the "
                       "bytes of the lists. Under faults the host part of a DNS answer is compared with what the hosts table "
                       "holds for the name (an unreadable deciding network rule lets MatchRequest fall through to the hosts "
                       "table). os.File behaviour after Close (every Seek/Read fails) is an assumption checked only by the "
                       "differential runs.",
    },
}

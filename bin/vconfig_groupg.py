"""vcheck configuration of work group G: PROPS = {"Cxx": {"families": [fam("name", quick_n, thorough_n)], "defects": ["Dn"]}}"""

PROPS = {
    "C03": {
        "families": [
            # exhaustive text equality: all patterns of <= 2 printable ASCII characters and all token strings of
            # <= n tokens (n = the number given: 3 quick, 4 thorough) over a 22-symbol alphabet
            fam("c03.p2rx", 3, 4, seeds=1),
            # sampled text equality beyond the bound (longer patterns, realistic patterns, arbitrary bytes)
            fam("c03.p2r", 4000, 60000),
            # compiled matcher (real NewNetworkRule + preparePattern + regexp) vs model (parseRE + search) vs
            # spec (maskAccepts) on subjects derived from the pattern
            fam("c03.acc", 6000, 120000),
        ],
        "defects": ["D2"],
        "rule": "c03.p2rx: exhaustive -- every pattern of <= 2 printable ASCII characters and every token string of <= 3 (quick) / "
                "4 (thorough) tokens over {. + ? $ { } ( ) [ ] / \\ | * ^ a Z 0 - : % _}: Go patternToRegexp text == model text == closed "
                "form; c03.p2r: sampled longer / realistic / arbitrary-byte patterns; c03.acc: rule texts "
                "`<pattern>$domain=example.org[,match-case]` through the real NewNetworkRule, preparePattern (VerifPrepared) and "
                "regexp.MatchString against parseRE+search (model, which also re-checks parsed AST == maskAst per line) and maskAccepts "
                "(spec) on subjects derived from the pattern (wildcards filled, separators / non-separators / end, case flips, "
                "dropped / doubled characters, scheme and subdomain variants); non-trivial = the answer is not F / the text is not "
                "empty; distinct by hash of the op input",
        "assumptions": [
            "patterns are ASCII (bytes < 128) and not /regex/ patterns; subjects contain no line feed (property: printable ASCII)",
            "Go regexp/syntax + regexp (RE2) are modelled by UF.Re (parseRE, search), validated differentially (families re, c03.acc)",
            "the documented language includes NewNetworkRule's normalisation `<p>/*` == `<p>^` (property text: the trailing '/*' form)",
            "separator class = complement of [ a-zA-Z0-9.%_-] (blank is not a separator), DESIGN.md section 6",
        ],
    },
}

"""vcheck configuration of work group G: PROPS = {"Cxx": {"families": [fam("name", quick_n, thorough_n)], "defects": ["Dn"]}}"""

PROPS = {}

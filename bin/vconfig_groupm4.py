"""vcheck configuration of work group M4 (inputs that process-global memos and in-memory readers hide).

PROPS = {"Cxx": {"families": [fam("name", quick_n, thorough_n)]}}; `fam` is injected by bin/vconfig.py.
"""

PROPS = {
    # queries about names that never occurred in the process before (every trial in a process of its own, concurrent
    # phase first, sequential reference afterwards): harness/race_c14_fresh.go
    "C14": {"families": [fam("c14fresh", 40, 300, seeds=2)]},
    # rule lists served by readers with short reads (1 byte, odd sizes, (n, io.EOF) together, (0, nil)): harness/op_m4_readers.go
    "C11": {"families": [fam("c11chunk", 150, 1500, seeds=2)]},
    "C12": {"families": [fam("c12.inertchunk", 60, 400, seeds=2)]},
    # tens of thousands of never-repeated hostnames in one process (bounded memos reach their bound): harness/op_m4_memo.go
    "C17": {"families": [fam("c17.many", 3, 12, seeds=2)]},
    "C18": {"families": [fam("c18chunk", 300, 3000, seeds=2)]},
    # the bodies of c20html delivered in parts by a raw TCP origin behind the REAL proxy (short reads): harness/op_c20_net.go
    "C20": {"families": [fam("c20htmlnet", 150, 1000, seeds=2)]},
}

"""vcheck configuration of work group R4.

PROPS = {"Cxx": {"families": [fam("name", quick_n, thorough_n)]}}; `fam` is injected by bin/vconfig.py.

c20html.huge : Go-only `assert c20.huge` ops on bodies of 1 .. 40 MiB (plain and gzip; every run has one plain and one
    gzip body of 24 .. 40 MiB): new body = body[:i]+tag+body[i:] for the first marker starting in the first 16384
    bytes (or the body), ContentLength = its length, Content-Encoding removed (harness/op_r4_c20.go).  Serial (prefix
    c20html); about a second per op.

(The multi-member gzip streams are inputs added to the EXISTING families c20html and c20htmlnet.)
"""

PROPS = {
    "C20": {"families": [fam("c20html.huge", 3, 9, seeds=2)]},
}

"""vcheck configuration of work group R3 (round-5 generator strengthening: C13, C15, C19).

c15.held        : C15, C13 -- Go-only `assert`: 4..24 consecutive cosmetic queries on ONE engine (generic rules with
                  `~domain` exclusions and `#@#` exceptions, so that the generic sets differ from hostname to hostname);
                  ALL results are kept and serialised again after the last call (each must equal its serialisation
                  taken right after its own call, and the answer of a new engine).  The same collect-then-compare is
                  built into `c15.cosm` (the answer compared with the model and the reference is the HELD one).
c13hist.fresh   : C13 -- serial (child processes): histories on one engine in the harness process, the reference
                  answer of every query comes from a CHILD PROCESS that starts, builds a new engine and answers this one
                  query (nothing process-wide can be warm there); the child also checks that every rule it reports
                  matches by its own Match on a newly parsed rule object.  Worlds contain groups of rules with the SAME
                  pattern / regular expression that differ only in options ($match-case, content types, $domain,
                  $third-party, @@), URLs vary in letter case.
"""
PROPS = {
    "C15": {"families": [fam("c15.held", 400, 4000)]},
    "C13": {"families": [fam("c15.held", 400, 4000), fam("c13hist.fresh", 60, 300, seeds=2)]},
}

"""vcheck configuration of work group A: PROPS = {"Cxx": {"families": [fam("name", quick_n, thorough_n)], "defects": ["Dn"]}}"""

PROPS = {
    "C05": {
        "families": [
            # regex core (shared with C03): real regexp.Compile + MatchString vs parseRE + search
            fam("re", 1000, 10000),
            fam("re.rules", 300, 1500),
            # Go's own regexp/syntax tree of the compiled text, converted to Re, vs the real engine
            fam("c05.tree", 600, 4000),
            # rule.Match vs pattern-only acceptance on members of L(compiled tree)
            fam("c05.url", 800, 5000),
            # rule.Shortcut justified by the tree findRegexpShortcut consults (model) and by the compiled tree (spec)
            fam("c05.shortcut", 600, 4000),
            # findShortcut: the IndexAny loop vs model vs first-longest-run spec (exhaustive short token strings + sampled)
            fam("c05.mask", 800, 6000),
            # Go-only law on mask rules: compiled pattern accepts url => lower(url) contains Shortcut
            fam("c05.maskurl", 400, 2000),
        ],
        "defects": ["D4"],
        "rule": "op lines generated from VERIF_SEED: regexes from two grammars (alternation, groups, classes, escapes \\d \\w \\s \\b \\xHH, "
                "quantifiers * + ? {m,n}, malformed stream) plus all regex rules of the bundled lists; subjects/URLs sampled from the parse "
                "tree (members, near-misses, case flips); mask patterns exhaustively over short token strings over {a b * ^ | . /} and sampled "
                "beyond; distinct by hash of the op input; non-trivial when the implementation's answer is not F/empty and the input is in "
                "the model's domain",
        "explanation": "Theorems (UF/Props/C05.lean): c05_re/c05_re_fold (required literals are factors of every accepted lower-cased subject), "
                       "c05_justified, c05_regex_shortcut (any candidate list), c05_regex_rule/c05_regex_model, c05_mask_total/c05_mask_run/"
                       "c05_mask_atoms/c05_mask_rule, c05 (Match is unchanged without the shortcut test). Correspondence: the regex semantics "
                       "(Den/search) against the real engine on Go's own parse trees (c05.tree) and through the model parser (re, re.rules); "
                       "every rule's Shortcut checked against the required literals of the compiled tree (c05.shortcut: hypothesis of "
                       "c05_justified); rule.Match against pattern-only acceptance (c05.url); findShortcut against the loop model and the "
                       "run spec (c05.mask).",
        "assumptions": [
            "ASCII subjects and patterns (non-ASCII lines are answered ood and counted); Go regexp/syntax is modelled, not verified: "
            "its parse trees are taken as given and their semantics validated differentially (c05.tree)",
            "the composition of the mask part with the mask compiler (maskAst, C03/group G) is stated as hypothesis `hcompiled` of c05_mask_rule",
        ],
    },
}

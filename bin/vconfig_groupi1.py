"""vcheck configuration of work group I1: PROPS = {"Cxx": {"families": [fam("name", quick_n, thorough_n)], "defects": ["Dn"]}}

The composed ops run the model FROM THE BYTES of the lists (storage scan with the modelled parser -> engines),
see harness/op_i1.go and lean/UF/Driver/Ops/GroupI1.lean.  They are added to the properties whose composed
theorems (UF/Props/C01Compose.lean, C02Compose.lean, C11Compose.lean, C15Compose.lean) they tie to the code.
"""
import glob as _glob
import importlib.util as _ilu
import os as _os


def _earlier(prop, key):
    """The value another group's file (loaded before this one) gives `key` of `prop`: the merge in vconfig.py
    keeps only `families` and `defects` of earlier files, so the descriptive keys are carried over here."""
    out = None
    here = _os.path.basename(__file__)
    for f in sorted(_glob.glob(_os.path.join(_os.path.dirname(_os.path.abspath(__file__)), "vconfig_*.py"))):
        if _os.path.basename(f) >= here:
            continue
        spec = _ilu.spec_from_file_location("_i1_" + _os.path.basename(f)[:-3], f)
        m = _ilu.module_from_spec(spec)
        m.fam = fam  # noqa: F821 (injected by vconfig.py)
        try:
            spec.loader.exec_module(m)
        except Exception:
            continue
        v = getattr(m, "PROPS", {}).get(prop, {}).get(key)
        if v is not None:
            out = v
    return out


_CHAIN = ("i1.chain (composition): 1-3 lists given as BYTES (network rules of all three lookup tables, hosts lines, bare domains, "
          "cosmetic rules, comments, invalid and mutated lines, padding, CRLF / mixed line ends / no final newline, ids incl. "
          "negative and extreme, IgnoreCosmetic on/off) + one request + oracle tables; Go = real RuleStorage + NetworkEngine.MatchAll; "
          "model = storage scan with the modelled NewRule -> engine model -> matchAll with retrieval through the storage model; "
          "spec = filter over the lines parsed one by one; answers = sorted sets of rule texts; non-trivial = non-empty answer")
_SCAN = ("i1.scan (composition): the same list generator; Go = RuleStorageScanner (storage index, kind, text, list id of every "
         "yielded rule); model = storage scan with the modelled NewRule (TrimSpace, comment / cosmetic / hosts / network dispatch); "
         "spec = reference scan (split at newlines, index computed arithmetically)")
_DNS = ("i1.dnschain (composition): the same list generator (DNS-style lines) + one DNS request; Go = DNSEngine.MatchRequest; "
        "model = storage scan with the modelled NewRule -> DNS engine model with the modelled GetDNSBasicRule; spec = reference "
        "scan over the lines parsed one by one; answer = (network rule texts)|class of NetworkRule|(v4)|(v6)|matched")
_COS = ("i1.coschain (composition): 1-3 lists given as BYTES (##/#@# rules of every shape among comments, hosts lines with ' ##', "
        "network rules, invalid and mutated lines, padding, CRLF, IgnoreCosmetic on/off) + hostname + flags; Go = real RuleStorage + "
        "CosmeticEngine.Match; model = storage scan with the modelled NewRule / NewCosmeticRule -> cosmetic lookup table; spec = reference "
        "over the lines parsed one by one; answer = (generic selectors)|(specific selectors)")


def _entry(prop, fams, text):
    e = {"families": fams, "defects": []}
    prev = _earlier(prop, "rule")
    e["rule"] = (prev + " || " if prev else "") + text
    for key in ("coverage_extra", "explanation", "assumptions", "extra", "level"):
        v = _earlier(prop, key)
        if v is not None:
            e[key] = v
    return e


_C11_NOTE = ("the parser assumption above (TrimsFirst) is DISCHARGED for the modelled rules.NewRule by UF/Props/C11Compose.lean "
             "(c11_trimsFirst_real, c11_real); the composed ops i1.chain / i1.scan run the modelled parser instead of the oracle table")

PROPS = {
    "C01": _entry("C01", [fam("i1.chain", 300, 5000, seeds=4)], _CHAIN),
    "C11": _entry("C11", [fam("i1.chain", 300, 5000, seeds=4), fam("i1.scan", 300, 5000, seeds=4)], _CHAIN + " || " + _SCAN),
    "C02": _entry("C02", [fam("i1.dnschain", 300, 5000, seeds=4)], _DNS),
    "C15": _entry("C15", [fam("i1.coschain", 300, 5000, seeds=4)], _COS),
}

if isinstance(PROPS["C11"].get("assumptions"), list):
    PROPS["C11"]["assumptions"] = PROPS["C11"]["assumptions"] + [_C11_NOTE]

"""vcheck configuration of work group I1: PROPS = {"Cxx": {"families": [fam("name", quick_n, thorough_n)], "defects": ["Dn"]}}"""

PROPS = {}

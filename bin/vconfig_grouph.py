"""vcheck configuration of work group H: PROPS = {"Cxx": {"families": [fam("name", quick_n, thorough_n)], "defects": ["Dn"]}}"""

PROPS = {
    "C10": {
        "families": [fam("c10", 4000, 60000)],
        "rule": "values from a grammar around every keyword, record type, field count and numeric bound plus byte mutations; "
                "each value goes through loadDNSRewrite (and NewNetworkRule when it can be written as an option value); "
                "c10.dnsrw compares the full dump with the Lean model, c10.shape evaluates the Lean shape predicate on the "
                "implementation's own result; non-trivial = the value was accepted; distinct by hash of the op input",
    },
    "C18": {
        "families": [fam("c18", 2500, 40000)],
        "defects": ["D11", "D16"],
        "rule": "lines from the hosts grammar (IPv4/IPv6/mapped/zoned/invalid addresses, 1..8 names, space/tab runs, comments with and "
                "without a preceding blank incl. tab, comment texts with cosmetic markers inside -- `x$$y`, `x$@$y`, ` $$`, `#@#` after a blank --, "
                "trailing blanks) plus byte mutations, through NewHostRule, NewRule and a real "
                "DNSEngine (every listed name, near misses and an unlisted name are queried); non-trivial = a host rule was produced; "
                "distinct by hash of the op input",
    },
    "C17": {
        "families": [fam("c17", 2500, 40000)],
        "rule": "URLs of the property's grammar (scheme://host[:port][/path|?query][#fragment]) with hosts drawn from the PSL's own rule "
                "shapes (multi-level, wildcard, exception, private suffixes, single labels, unknown TLDs, IPv4), sources of the same shape "
                "(same registrable domain / other / none), plus odd and mutated URLs and URLs around the 4 KiB cap; c17.req/c17.hostreq/"
                "c17.etld compare NewRequest/NewRequestForHostname/effectiveTLDPlusOne with the Lean model and the reference request; "
                "assert lines compare with net/url and publicsuffix.EffectiveTLDPlusOne in Go; non-trivial = every request record; "
                "distinct by hash of the op input",
    },
}

"""vcheck configuration of group P3 (REVIEW2 F3: Go's regexp/syntax factors alternation prefixes with an
equality that ignores the fold-case flag; the Lean regexp model replays it, UF/Model/RegexQuirk.lean)."""

# re.quirk : op `re` (regexp.Compile + MatchString vs parseRE + search) on the shapes X.|[xX], [xX]y|X., X[^x]|[Xx]x,
#            (?i:x)y|X., longer common prefixes, fixed repeats, nested and in capture groups, with the subjects that tell
#            Go's reading from the textbook one; (?:…) / (?i:…) / {n}? next to a folded literal are outside the model (ood)
# i2.quirk : the same expressions as /…/ rules with and without $match-case: ops `i2.pat` (preparePattern + MatchString
#            vs modelPat) and `i2.reshortcut` (findRegexpShortcut vs the text-level model)
_REQ = fam("re.quirk", 1500, 20000)
_I2Q = fam("i2.quirk", 1500, 20000)

PROPS = {
    "C03": {"families": [_REQ]},
    "C04": {"families": [_I2Q]},
    "C05": {"families": [_REQ, _I2Q]},
    "C12": {"families": [_I2Q]},
}

"""vcheck configuration of work group C: PROPS = {"Cxx": {"families": [fam("name", quick_n, thorough_n)], "defects": ["Dn"]}}"""

PROPS = {
    "C07": {
        "families": [
            fam("c07.prio", 3000, 20000),
            # block pairs of the 2304-rule pool; thorough = all 48x48 blocks = all 5.3 M ordered pairs (seed-independent)
            fam("c07.matrix", 40, 1000000, seeds=1),
            # laws computed in Go; n >= 1000000 = exhaustive over the pool
            fam("c07.laws", 1500, 1000000, seeds=1),
            # option bits rule text cannot set ($redirect, $replace, $cookie, $csp), set by the harness through reflection
            fam("c07.priox", 1000, 15000),
            # the real selection loops (NewMatchingResult / GetDNSBasicRule): which rule is returned, go vs model
            fam("c06.result", 1000, 8000, seeds=2),
            fam("c06.dnsbasic", 1000, 8000, seeds=2),
        ],
        "defects": ["D6"],
        "rule": "c07.prio: ordered pairs over the 2304-rule feature pool + extras + generated rules (incl. a,a and rule vs rule+modifier); "
                "c07.matrix: 48x48 blocks of the pool's IsHigherPriority matrix (thorough: the whole matrix); c07.laws: irreflexivity, "
                "asymmetry, transitivity of > and of ties, add-modifier, selection maximality computed in Go; distinct by hash of the op input; "
                "non-trivial when the answer is not F",
        "explanation": "$redirect is read by IsHigherPriority but cannot be set from rule text on this tree; the theorems cover it, and "
                       "c07.priox compares the Go function with the model on rule objects whose option mask the harness patched through "
                       "reflection (nothing in /repo is changed).",
    },
    "C08": {
        "families": [
            fam("c08.negates", 2500, 25000),
            fam("c08.removebad", 2500, 15000),
            fam("c08.engine", 1500, 8000),
            fam("c08.rewrites", 1000, 8000),
        ],
        "defects": ["D7", "D14"],
        "rule": "c08.negates: (x$badfilter, x), near-twins differing in exactly one modifier value (incl. $denyallow, $dnstype, $dnsrewrite, "
                "$client/$ctag order), reversed and random pairs through VerifNegatesBadfilter; c08.removebad: base lists + 1-4 twin pairs at "
                "random positions + near-twins through VerifRemoveBadfilterRules (survivor indexes, in order); c08.engine: verdict(L+twins) == "
                "verdict(L) through NetworkEngine.Match and DNSEngine.MatchRequest, rules split over two lists at a random point; "
                "distinct by hash of the op input; non-trivial when the answer is not F/()",
    },
    "C09": {
        "families": [
            fam("c09.rewrites", 3000, 40000),
            # n = maximal length enumerated EXHAUSTIVELY over the 24-shape alphabet (quick: all 346 201 sequences of
            # length 0..4; thorough: all 8 308 825 of length 0..5 plus all 2 985 984 of length 6 over a 12-shape sub-alphabet)
            fam("c09.batch", 4, 5, seeds=1),
        ],
        "defects": ["D8"],
        "coverage_extra": {"exhaustive": True},
        "rule": "c09.rewrites: sampled sequences (length 0-14) of $dnsrewrite rules over 24 values x important x exception (plus rules "
                "without $dnsrewrite), half of them through a real DNSEngine (texts parsed, engine decides the order of NetworkRules), "
                "answer = indexes of DNSRewrites() in order; c09.batch: exhaustive enumeration of all sequences up to the given length over "
                "the 24-shape alphabet (A/CNAME/RCODE/MX x important x exception, TXT/HTTPS/SRV rule+exception, the two empty-valued "
                "exceptions), 1000 sequences per line; distinct by hash of the op input",
        "explanation": "Length 6 over all 24 shapes (191 M sequences) does not fit the time budget of the line protocol; it is enumerated over "
                       "a 12-shape sub-alphabet. The theorem c09 covers every length.",
    },
    "C06": {
        "families": [
            fam("c06.result", 1500, 12000, seeds=3),
            fam("c06.dnsbasic", 1500, 12000, seeds=3),
            fam("c06.engine", 1000, 8000, seeds=3),
            # all singletons and all (rule, source rule) / (rule, rule) pairs of the pool in the thorough tier (seed-independent)
            fam("c06.pairs", 400, 1000000, seeds=1),
            # $replace/$cookie/$csp/$redirect bits set by the harness through reflection: go vs MODEL only
            fam("c06.resultx", 1000, 8000, seeds=3),
        ],
        "defects": ["D5"],
        "rule": "multisets (size 0-6 rules, 0-3 source rules, with badfilter twins) over a pool realising all combinations of {exception, "
                "$important, $domain-specific, $document/$urlblock/$genericblock/$elemhide, $dnsrewrite, $badfilter, $stealth}, each in "
                "1-3 permutations: c06.result/c06.dnsbasic = class of NewMatchingResult(...).GetBasicResult() / GetDNSBasicRule (go vs model "
                "vs reference class), c06.pick/c06.dnspick = which rule is returned (go vs model), assert c06.*perm = all permutations "
                "agree; c06.engine = the same through Engine.MatchRequest / DNSEngine.MatchRequest over 1-3 rule lists (rules = what "
                "MatchAll returned); thorough adds all singletons and all (rule, source rule) / (rule, rule) pairs of the pool; "
                "distinct by hash of the op input; non-trivial when the answer is not none",
        "explanation": "$replace/$cookie/$csp cannot be set from rule text on this tree: the switch arms for them and the $replace early "
                       "return are covered by the theorems (c06_web_all, c06_dns_all) and compared with the MODEL only (c06.resultx, option "
                       "masks patched by the harness through reflection): with an effective $replace rule the code returns nil whatever "
                       "else matches, which is not the documented precedence, so c06_web/c06_dns carry the hypothesis 'no $replace bit'.",
    },
}

"""vcheck configuration of work group C: PROPS = {"Cxx": {"families": [fam("name", quick_n, thorough_n)], "defects": ["Dn"]}}"""

PROPS = {
    "C07": {
        "families": [
            fam("c07.prio", 3000, 20000),
            # block pairs of the 2304-rule pool; thorough = all 48x48 blocks = all 5.3 M ordered pairs (seed-independent)
            fam("c07.matrix", 40, 1000000, seeds=1),
            # laws computed in Go; n >= 1000000 = exhaustive over the pool
            fam("c07.laws", 1500, 1000000, seeds=1),
        ],
        "defects": ["D6"],
        "rule": "c07.prio: ordered pairs over the 2304-rule feature pool + extras + generated rules (incl. a,a and rule vs rule+modifier); "
                "c07.matrix: 48x48 blocks of the pool's IsHigherPriority matrix (thorough: the whole matrix); c07.laws: irreflexivity, "
                "asymmetry, transitivity of > and of ties, add-modifier, selection maximality computed in Go; distinct by hash of the op input; "
                "non-trivial when the answer is not F",
        "explanation": "$redirect is read by IsHigherPriority but cannot be set from rule text on this tree; the theorems cover it, "
                       "the correspondence cannot.",
    },
}

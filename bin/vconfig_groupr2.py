"""Group R2 (fifth round of seeded changes): families shared with further properties."""

PROPS = {
    # the twin relation compares PARSED patterns/values: a parser that reads `x` and `x$badfilter` differently (e.g. `\\$` in
    # the pattern unescaped only when an options delimiter was found) is seen at once by the parse correspondence
    "C08": {"families": [fam("c04.parse", 1500, 15000)]},
}

"""Group M3: families added while strengthening the generators against the round-4 seeded changes.

c19fault.midline : C19, Go-only `assert` (serial: goroutine timing).  A FILE-backed list with one rule line of
    1-3 MiB ($domain / $denyallow / $client list or a hosts line with thousands of names); a watcher goroutine
    observes the offset of FileRuleList.File and closes the storage BETWEEN two buffer-sized reads of that line
    while a network engine (MatchAll / Match) or a DNS engine (MatchRequest) retrieves it.  Every rule returned
    while / after the fault must be a rule of the list (text equal to a scanned rule; RetrieveRule(idx) returns
    the rule scanned at idx or nothing) and must be returned by the fault-free engine for the same request.
    Attempts are repeated until conclusive; inconclusive scenarios count as pass and say so in the note.

(The other changes of group M3 are inputs added to EXISTING families: record types without a value parser in
c09.rewrites / l.c09mixed / i3.dns; 64-200 KiB lines in c11store and c13.tail -- the latter now also compares with an
in-memory list of the same content; cosmetic rules longer than the 4 KiB scanner buffer in c15.cosm -- whose model /
reference columns now get the lines parsed one by one instead of the scanner's output -- and i1.coschain.)
"""

PROPS = {
    "C19": {"families": [fam("c19fault.midline", 8, 40, seeds=2)]},
}

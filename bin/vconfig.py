"""Per-property configuration of vcheck: op families of the correspondence check, corpus replays."""


def fam(name, quick, thorough, seeds=4, args=None):
    d = {"name": name, "quick": quick, "thorough": thorough, "thorough_seeds": seeds}
    if args:
        d["args"] = args
    return d


PROPS = {
    "C04": {
        "families": [fam("match", 3000, 60000)],
        "defects": ["D3"],
    },
}

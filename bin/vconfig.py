"""Per-property configuration of vcheck: op families of the correspondence check, corpus replays."""


def fam(name, quick, thorough, seeds=4, args=None):
    d = {"name": name, "quick": quick, "thorough": thorough, "thorough_seeds": seeds}
    if args:
        d["args"] = args
    return d


PROPS = {
    "C16": {
        "families": [fam("cosopt", 0, 0, seeds=2), fam("cosoptproxy", 0, 0, seeds=1)],
        "defects": ["D10"],
        "coverage_extra": {"exhaustive": True},
        "rule": "all 2^9 subsets of the nine exception modifiers as real rule texts (modifier order shuffled from VERIF_SEED) plus "
                "absent and non-exception basic rules, through NewMatchingResult(...).GetCosmeticOption() and Engine.GetCosmeticResult, each also "
                "with referrer rules (same exception / $genericblock / $urlblock on the referrer); cosoptproxy: the real proxy server on loopback in front "
                "of a local origin, one HTML page per subset of {elemhide, generichide, jsinject, urlblock, important}, fetched with a browser-like and "
                "with a */* Accept header, option read back from the injected tag; "
                "non-trivial = the option differs from 'no answer'; distinct by hash of the op input",
    },
    "C04": {
        "families": [fam("match", 3000, 60000)],
        "defects": ["D3"],
    },
}

# Work groups register their properties in bin/vconfig_<group>.py (a dict PROPS using fam()).
import glob as _glob
import importlib.util as _ilu
import os as _os

for _f in sorted(_glob.glob(_os.path.join(_os.path.dirname(_os.path.abspath(__file__)), "vconfig_*.py"))):
    _spec = _ilu.spec_from_file_location(_os.path.basename(_f)[:-3], _f)
    _m = _ilu.module_from_spec(_spec)
    _m.fam = fam
    _spec.loader.exec_module(_m)
    for _k, _v in _m.PROPS.items():
        if _k in PROPS:
            _merged = dict(PROPS[_k])
            for _kk, _vv in _v.items():
                if _kk == "families":
                    _names = [f["name"] for f in _merged.get("families", [])]
                    _merged["families"] = _merged.get("families", []) + [f for f in _vv if f["name"] not in _names]
                elif _kk == "defects":
                    _merged["defects"] = sorted(set(_merged.get("defects", []) + _vv))
                else:
                    _merged[_kk] = _vv
            _v = _merged
        PROPS[_k] = _v

"""Per-property configuration of vcheck: op families of the correspondence check, corpus replays."""


def fam(name, quick, thorough, seeds=4, args=None):
    d = {"name": name, "quick": quick, "thorough": thorough, "thorough_seeds": seeds}
    if args:
        d["args"] = args
    return d


PROPS = {
    "C16": {
        "families": [fam("cosopt", 0, 0, seeds=2)],
        "defects": ["D10"],
        "coverage_extra": {"exhaustive": True},
        "rule": "all 2^9 subsets of the nine exception modifiers as real rule texts (modifier order shuffled from VERIF_SEED) plus "
                "absent and non-exception basic rules, through NewMatchingResult(...).GetCosmeticOption() and Engine.GetCosmeticResult; "
                "non-trivial = the option differs from 'no answer'; distinct by hash of the op input",
    },
    "C04": {
        "families": [fam("match", 3000, 60000)],
        "defects": ["D3"],
    },
}

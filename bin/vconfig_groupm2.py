"""Group M2 (strengthening round 4): families only.

c07.engine : the C07 statement at ENGINE level.  The scenarios of c06.engine (multisets over pools whose patterns vary
             independently of the modifiers; half of them contain two DIFFERENT rules whose full texts collide under the
             32-bit hash, both matching the request, over a host too short for a 5-byte shortcut) through the real
             Engine / NetworkEngine / DNSEngine in several storage orders, the second being the exact mirror of the
             first.  Per order: the direct selection functions over ALL rules of the lists that match (linear scan, no
             lookup table) against the model (c06.result / c06.pick / c06.dnsbasic / c06.dnspick), the engine's verdict
             against that candidate set, and `assert c07.engsel`: the rule an engine selects is tied with the selection
             over all matching rules, for every order, and the rules selected for different orders are tied.
"""

PROPS = {
    "C07": {"families": [fam("c07.engine", 400, 4000, seeds=2)]},
}

"""vcheck configuration of work group D: PROPS = {"Cxx": {"families": [fam("name", quick_n, thorough_n)], "defects": ["Dn"]}}"""

PROPS = {
    "C11": {
        "families": [
            fam("c11store", 150, 1500),   # every scenario = one c11.scan line + one c11.retrieve line
            fam("c11pack", 2000, 50000),
            fam("c11trim", 3000, 100000),
        ],
        "defects": [],
        "rule": "c11store: 1-4 lists (ids from {min int32, -1, 0, 1, max int32, random}, 1 in 10 with a duplicate id) of generated "
                "contents (LF/CRLF/no final newline, blank/comment/invalid lines, multi-byte UTF-8, Unicode spaces, NUL, 4-12 KiB lines) "
                "scanned through the real RuleStorage over StringRuleLists AND FileRuleLists on real temp files (must agree), then "
                "RetrieveRule for every yielded index plus off-by-one and garbage indices (some twice, for the cache); the parser is an "
                "oracle table computed with the real rules.NewRule; c11pack: ruleListIdxToStorageIdx/storageIdxToRuleListIdx through the "
                "Verif hooks; c11trim: strings.TrimSpace vs the model on byte strings built around every White_Space encoding, near "
                "misses and cut sequences; non-trivial = a non-empty answer; distinct by hash of the op input",
        "assumptions": ["rules.NewRule is a parameter of the model (TrimsFirst: it trims its input first); in the correspondence run it "
                        "is an oracle table computed by the real rules.NewRule",
                        "bufio.Reader.ReadBytes and os.File seek/read are modelled (any chunking of the block reads), not verified",
                        "contents are shorter than 2^31 bytes and list ids fit int32, as the property quantifies"],
    },
    "C20": {
        "families": [fam("c20html", 400, 2500)],
        "defects": ["D12"],
        "rule": "bodies over all 256 byte values (plain, or gzip-compressed by the harness with Content-Encoding: gzip) with 0..n markers "
                "in random letter case placed before, inside, straddling and beyond the 16 KiB window, long runs of high bytes before "
                "the marker (the D12 shape), near-markers (cut, with high bytes, Kelvin sign / long s, one bit of one marker byte flipped), through proxy.VerifFilterHTML; "
                "answer = new body, ContentLength, Content-Encoding and CSP headers still present; every 4th body also through "
                "findBodyInjectionIndex; non-trivial = every answer (the body is always returned); distinct by hash of the op input",
        "assumptions": ["compress/gzip is an oracle (the model receives the decompressed body)",
                        "charmap.ISO8859_1 and strings.EqualFold are modelled on their reachable domain (see lean/UF/Model/Html.lean) and "
                        "validated by the correspondence run",
                        "the injected tag is ASCII (it is rendered from an ASCII template and the request hostname)"],
    },
}

"""vcheck configuration of group M1 (generator strengthening after seed round 4)."""

PROPS = {
    # the shortcut as the ENGINE uses it (shortcuts table: 5-byte windows of the lower-cased URL): real
    # NetworkEngine.MatchAll vs model engine vs linear scan (op c01.matchall) and vs rule.Match for every rule
    # (assert c05.engine), on URLs with upper-case letters exactly where a window of a rule's shortcut begins
    "C05": {"families": [fam("c05.engine", 500, 5000)]},
}
